"""C13 - relationship (coancestry) matrices match their definitions and algebraic laws."""
import math

import numpy

from pbmon import boot  # noqa: F401
from pbmon.oracle import relmat as O

PROPERTY = "C13"
NSHARDS = {"quick": 4, "thorough": 16}
CLAUSES = {
    "C13.def.molecular": 3000, "C13.def.vanraden": 3000, "C13.def.yang": 2000, "C13.def.gweighted": 3000,
    "C13.kinship": 40000, "C13.symmetric": 10000, "C13.psd": 10000, "C13.labels": 30000,
    "C13.equivariance.perm": 10000, "C13.equivariance.subset": 8000,
    "C13.summary.inverse": 5000, "C13.summary.extreme": 100000, "C13.summary.mean": 40000,
    "C13.summary.min_inbreeding": 5000, "C13.psdflag": 3000,
    "C13.factory": 2500, "C13.intact": 20000,
    "C13.summary.history": 50000,
    "C13.factory.history": 10000, "C13.equivariance.ops": 8000,
    "C13.labels.optional": 8000,
}
RULE = ("seeded class-based genotype matrices: phased (ploidy,n,m) and unphased (n,m) int8 sources of ploidy 1 and 2; n in 1..40 "
        "(plus n=49/98/103 where 1/(ploidy*n) rounds), m in 1..60 (skewed small, m=1 included); contents random / rare alleles / "
        "monomorphic markers mixed in / all monomorphic / duplicated taxa / all heterozygous / inbred lines; labels present, absent, "
        "duplicate names, grouped or not; optional variant label arrays (chrgrp, phypos, name, genpos, xoprob, hapgrp, hapalt, hapref, "
        "vrnt_mask all True | mixed | all False | assigned after construction | absent; full or partial sets) on 80 % of the sources, "
        "each judged against the formula over ALL markers and against the twin source without them; every case drives all four estimators with their own argument class (reference "
        "frequencies None | scalar | vector inside (0,1) | vector with exact 0/1 entries; marker weights None | scalar incl. 0 | "
        "vector with zeros | integer vector | all zero | 1e-3..1e3 spread), a random permutation and a random sub-selection, both "
        "output formats (the format argument spelled lower-case, Capitalised, UPPER and mIxEd in rotation on every format-taking method), and (every 4th case) the factory classes.  History family: a live, invertible coancestry object (n 2..8, m > n) is "
        "queried for every view, element-access index form (none, int, slices, Ellipsis, mixed, negative, index arrays) and summary, then 3-7 random steps of reorder_taxa (non-identity) / sort_taxa / group_taxa / "
        "remove_taxa / select_taxa (continuing on the result) / mat assignment (same shape: permuted, scaled+ridge, fresh Gram) / no-op, "
        "with every view and summary re-judged against the CURRENT mat after each step.  Factory family: two long-lived instances of an "
        "estimator's factory class plus its classmethod receive 3-7 interleaved from_gmat calls with fresh / re-used / re-ordered sources "
        "of one marker count and per-call optional arguments omitted | None | scalar | vector (keyword or positional); each result is "
        "judged against the formula for that call's own source and arguments.  Selection family: chains of 3-6 of the coancestry "
        "object's own select/delete/remove/reorder/sort/group (axis-specific and axis-generic, axis 0/1/-1/-2) with index forms "
        "array | list | tuple | range | negative | mixed negative | int8..uint16/intp | repeated | boolean mask/list | scalar | slice | "
        "empty on all four classes: data and labels must follow one index vector, and the result equals the formula on the selected "
        "genotypes and from_gmat(source.select_taxa(index)).  Non-trivial: n >= 2 and m >= 2; distinct = digest of the raw "
        "allele array, labels and all arguments.")
ASSUME = [
    "molecular coancestry of an individual with itself draws the two alleles independently (with replacement): homozygote 2, "
    "heterozygous diploid 1",
    "unphased dosage x stands for x copies of allele 1 and ploidy-x copies of allele 0",
    "VanRaden = method 1 of VanRaden (2008) with 2 replaced by the ploidy; Yang = uniform per-marker scaling "
    "(x-cp)(x'-cp)/(c p(1-p)) averaged over markers for every entry including the diagonal (the Gram form, the only reading "
    "under which the property's PSD clause can hold); generalised weighted = Z diag(w) Z'",
    "domain: VanRaden needs sum p(1-p) > 0, Yang needs every p strictly inside (0,1) (for p=None: of the sample frequencies); "
    "cases outside are not driven for that estimator and are counted under counters['out of domain: ...']",
    "inverse / minimum inbreeding are only judged when the matrix is numerically invertible (eigenvalue ratio <= 1e6); a "
    "LinAlgError on a singular matrix is counted as raised, not as a violation",
    "is_positive_semidefinite() is only judged where the answer does not depend on a tolerance choice (smallest eigenvalue "
    "beyond 1e-6 of the largest in either direction)",
    "argument arrays are float64 or integer typed (a float32 frequency vector makes the library evaluate the scaling constant in "
    "single precision; that is the precision the caller supplied and is not driven)",
    "history clause: the in-place operations themselves are not judged (C03); only that views/summaries describe the current "
    "mat.  append/incorp/insert on square matrices (FIXME-marked, NaN-filled blocks), apply_jitter (global numpy stream) and "
    "element writes into the array returned by .mat are not driven",
    "selection family: which index forms a method accepts is not judged (a TypeError for a scalar index is counted as raised); "
    "a boolean sequence handed to select/reorder may be read as a mask or, as numpy.take does, as 0/1 positions - either is "
    "accepted as long as data and labels follow the same reading; sort/group orders are the library's choice and are identified "
    "from unique taxon names (not judged when names are absent or duplicated)",
    "factory family: factory constructors take no arguments in the unchanged API; only from_gmat call sequences are driven",
    "optional variant labels, including vrnt_mask, are annotations: no estimator's definition in the property refers to them, so "
    "they must not change the matrix (the matrix is defined over the genotype matrix's markers)",
    "numpy.linalg.eigvalsh / solve and long-double accumulation are correct (trusted base)",
]
TRUSTED = ["pbmon/oracle/relmat.py"]

KINDS = [("phased diploid", 2, True), ("unphased diploid", 2, False), ("phased haploid", 1, True), ("unphased haploid", 1, False)]
FORMATS = ("coancestry", "kinship")


# ------------------------------------------------------------------ helpers
def defsite(obj, meth):
    """Name of the class in the MRO that defines ``meth`` (finding keys name the implementing class)."""
    for k in type(obj).__mro__:
        if meth in vars(k):
            return "%s.%s" % (k.__name__, meth)
    return "%s.%s" % (type(obj).__name__, meth)


def same_labels(a, b):
    if a is None or b is None:
        return a is None and b is None
    a = numpy.asarray(a); b = numpy.asarray(b)
    return a.shape == b.shape and a.tolist() == b.tolist()


def classes():
    from pybrops.popgen.cmat.DenseMolecularCoancestryMatrix import DenseMolecularCoancestryMatrix as Mol
    from pybrops.popgen.cmat.DenseVanRadenCoancestryMatrix import DenseVanRadenCoancestryMatrix as VR
    from pybrops.popgen.cmat.DenseYangCoancestryMatrix import DenseYangCoancestryMatrix as YG
    from pybrops.popgen.cmat.DenseGeneralizedWeightedCoancestryMatrix import DenseGeneralizedWeightedCoancestryMatrix as GW
    from pybrops.popgen.cmat.fcty.DenseMolecularCoancestryMatrixFactory import DenseMolecularCoancestryMatrixFactory as FMol
    from pybrops.popgen.cmat.fcty.DenseVanRadenCoancestryMatrixFactory import DenseVanRadenCoancestryMatrixFactory as FVR
    from pybrops.popgen.cmat.fcty.DenseYangCoancestryMatrixFactory import DenseYangCoancestryMatrixFactory as FYG
    from pybrops.popgen.cmat.fcty.DenseGeneralizedWeightedCoancestryMatrixFactory import \
        DenseGeneralizedWeightedCoancestryMatrixFactory as FGW
    return {"molecular": (Mol, FMol), "vanraden": (VR, FVR), "yang": (YG, FYG), "gweighted": (GW, FGW)}


VLABEL_CLASSES = ["no variant labels", "no variant labels", "all variant labels/vrnt_mask all True", "all variant labels/vrnt_mask mixed",
                  "all variant labels/vrnt_mask all False", "all variant labels/vrnt_mask assigned after construction",
                  "only vrnt_mask (mixed)", "only vrnt_name and vrnt_mask (mixed)", "all variant labels/no vrnt_mask",
                  "only genetic positions and crossover probabilities"]


def gen_vlabels(g, m):
    """Optional variant label arrays of a source (none of them is data of any estimator): (class, constructor kwargs,
    mask to assign after construction or None)."""
    cls = str(g.choice(VLABEL_CLASSES))
    if cls == "no variant labels":
        return cls, {}, None
    full = dict(vrnt_chrgrp=numpy.sort(g.integers(1, 4, m)).astype("int64"), vrnt_phypos=(numpy.arange(1, m + 1) * 10).astype("int64"),
                vrnt_name=numpy.array(["v%d" % i for i in g.permutation(m)], dtype=object),
                vrnt_genpos=numpy.cumsum(g.uniform(0, 0.3, m)), vrnt_xoprob=g.uniform(0, 0.5, m),
                vrnt_hapgrp=g.integers(0, 3, m).astype("int64"), vrnt_hapalt=numpy.array(["A"] * m, dtype=object),
                vrnt_hapref=numpy.array(["C"] * m, dtype=object))
    mixed = g.random(m) < 0.5
    if m >= 2 and (mixed.all() or not mixed.any()):
        mixed[0] = True; mixed[1] = False
    post = None
    if cls.endswith("all True"):
        full["vrnt_mask"] = numpy.ones(m, dtype=bool)
    elif cls.endswith("mixed"):
        full["vrnt_mask"] = mixed
    elif cls.endswith("all False"):
        full["vrnt_mask"] = numpy.zeros(m, dtype=bool)
    elif cls.endswith("after construction"):
        post = mixed
    if cls == "only vrnt_mask (mixed)":
        return cls, {"vrnt_mask": mixed}, None
    if cls == "only vrnt_name and vrnt_mask (mixed)":
        return cls, {"vrnt_name": full["vrnt_name"], "vrnt_mask": mixed}, None
    if cls == "only genetic positions and crossover probabilities":
        return cls, {"vrnt_genpos": full["vrnt_genpos"], "vrnt_xoprob": full["vrnt_xoprob"]}, None
    return cls, full, post


def make_gmat(alleles, phased, ploidy, taxa, taxa_grp, vlabels=None):
    """Build the library object from the raw allele array (ploidy, n, m); ``vlabels`` = (class, kwargs, mask assigned afterwards)."""
    from pybrops.popgen.gmat.DensePhasedGenotypeMatrix import DensePhasedGenotypeMatrix
    from pybrops.popgen.gmat.DenseGenotypeMatrix import DenseGenotypeMatrix
    t = None if taxa is None else taxa.copy()
    tg = None if taxa_grp is None else taxa_grp.copy()
    kw = {} if vlabels is None else {k: v.copy() for k, v in vlabels[1].items()}
    if phased:
        gm = DensePhasedGenotypeMatrix(numpy.ascontiguousarray(alleles.astype("int8")), taxa=t, taxa_grp=tg, **kw)
    else:
        gm = DenseGenotypeMatrix(alleles.sum(0).astype("int8"), taxa=t, taxa_grp=tg, ploidy=int(ploidy), **kw)
    if vlabels is not None and vlabels[2] is not None:
        gm.vrnt_mask = vlabels[2].copy()
    return gm


# ------------------------------------------------------------------ generators
def gen_source(g):
    kname, ploidy, phased = KINDS[int(g.choice(4, p=[0.35, 0.35, 0.15, 0.15]))]
    r = g.random()
    if r < 0.08:
        n = 1
    elif r < 0.16:
        n = 2
    elif r < 0.22:
        n = int(g.choice([49, 98, 103]))
    elif r < 0.80:
        n = int(g.integers(3, 13))
    else:
        n = int(g.integers(13, 41))
    r = g.random()
    m = 1 if r < 0.08 else (int(g.integers(2, 9)) if r < 0.45 else int(g.integers(9, 61)))
    if g.random() < 0.04 and n <= 12:
        m = int(g.choice([128, 130, 200, 300]))   # more than 127 markers: narrow integer accumulators (int8) would wrap
    content = str(g.choice(["random", "random", "rare", "mono-mixed", "all-mono", "duplicates", "all-het", "inbred"]))
    if content == "all-het" and ploidy == 1:
        content = "random"
    q = g.uniform(0, 1, m)
    if content == "rare":
        q = g.choice([0.03, 0.97, 0.1], m)
    A = (g.random((ploidy, n, m)) < q[None, None, :]).astype(numpy.int64)
    if content == "mono-mixed":
        for k in range(m):
            if g.random() < 0.4:
                A[:, :, k] = int(g.integers(0, 2))
    elif content == "all-mono":
        A[:, :, :] = g.integers(0, 2, m)[None, None, :]
    elif content == "duplicates":
        u = max(1, n // 3)
        A = A[:, g.integers(0, u, n), :]
    elif content == "all-het":
        first = g.integers(0, 2, (n, m)); A[0] = first; A[1] = 1 - first
    elif content == "inbred" and ploidy == 2:
        A[1] = A[0]
    # labels
    lab = str(g.choice(["named", "named", "named+grp", "named+grp", "grouped", "grouped", "dupnames", "none", "grp-only"]))
    taxa = taxa_grp = None
    if lab in ("named", "named+grp", "grouped", "dupnames"):
        taxa = numpy.array(["t%03d" % i for i in g.permutation(n)], dtype=object)
        if lab == "dupnames" and n > 1:
            taxa[g.integers(0, n, max(1, n // 2))] = "same"
    if lab in ("named+grp", "grouped", "grp-only", "dupnames"):
        taxa_grp = g.integers(0, 4, n).astype("int64")
    return {"kind": kname, "ploidy": ploidy, "phased": phased, "n": n, "m": m, "content": content, "labels": lab,
            "alleles": A, "taxa": taxa, "taxa_grp": taxa_grp}


def gen_freq(g, m, mode):
    """Reference-frequency argument of class ``mode``; returns (argument as passed, class name)."""
    if mode == "none":
        return None
    if mode == "scalar":
        v = float(g.choice([0.5, 0.25, 0.1, float(g.uniform(0.02, 0.98))]))
        return numpy.float64(v) if g.random() < 0.3 else v
    if mode == "scalar-boundary":
        v = int(g.integers(0, 2))
        return [v, float(v), numpy.float64(v)][int(g.integers(0, 3))]
    if mode == "vector":
        p = g.uniform(0.02, 0.98, m)
        if g.random() < 0.2:
            p[g.random(m) < 0.3] = float(g.choice([1e-4, 1 - 1e-4, 0.5]))
        return p
    if mode == "vector-boundary":
        p = g.uniform(0, 1, m)
        b = g.random(m) < 0.5
        p[b] = g.choice([0.0, 1.0], int(b.sum()))
        return p
    raise ValueError(mode)


def gen_weights(g, m):
    mode = str(g.choice(["none", "scalar", "vector-zeros", "int-vector", "all-zero", "spread", "uniform"]))
    if mode == "none":
        return None, mode
    if mode == "scalar":
        v = [0.0, 1.0, 2.5, 3, numpy.float64(0.5)][int(g.integers(0, 5))]
        return v, mode
    if mode == "vector-zeros":
        w = g.uniform(0, 3, m); w[g.random(m) < 0.4] = 0.0
        return w, mode
    if mode == "int-vector":
        return g.integers(0, 4, m).astype("int64"), mode
    if mode == "all-zero":
        return numpy.zeros(m), mode
    if mode == "spread":
        return 10.0 ** g.uniform(-3, 3, m), mode
    return g.uniform(0, 2, m), mode


def freq_vector(arg, x, ploidy, m):
    """The reference frequencies the definition uses for argument ``arg`` (long double)."""
    if arg is None:
        return O.sample_freq(x, ploidy)
    if numpy.ndim(arg) == 0:
        return numpy.full(m, O.LD(float(arg)), dtype=O.LD)
    return numpy.asarray(arg, dtype=O.LD)


# ------------------------------------------------------------------ monitors on one matrix
def returns(ctx, site, icls, coords, call, witness=None):
    """Affirmative-result policy: an exception on an in-domain input is a violation."""
    try:
        out = call()
    except Exception as e:
        ctx.ok("C13.returns")
        ctx.violation("C13.returns", site, "raised %s" % type(e).__name__, icls,
                      what="%s raised %s: %s" % (site, type(e).__name__, str(e)[:160]), witness=witness, coords=coords)
        return False, None
    return True, out


def judge_matrix(ctx, est, cm, src, icls, coords, wit):
    """symmetry, PSD, labels, kinship view, summaries, PSD flag, intactness of one coancestry object."""
    G = numpy.array(cm.mat, dtype=float, copy=True)
    n = G.shape[0]
    fsite = "%s.from_gmat" % type(cm).__name__
    finite = bool(numpy.all(numpy.isfinite(G)))
    big = float(numpy.abs(G).max()) if G.size and finite else 0.0
    dscale = float(numpy.abs(numpy.diag(G)).max()) if finite else 0.0
    scale = max(big, dscale)
    # -- symmetric
    asym = O.maxerr(G, G.T)
    ctx.maxnote("asymmetry / tolerance", asym / O.tol(scale) if asym < float("inf") else 0.0)
    ctx.check("C13.symmetric", asym <= O.tol(scale), fsite, "mat == mat.T", icls, witness=dict(wit, mat=G), coords=coords)
    # -- PSD up to rounding
    w = None
    if finite:
        w = numpy.linalg.eigvalsh(0.5 * (G + G.T))
        tr = float(numpy.trace(G))
        ctx.maxnote("most negative eigenvalue / trace", float(-w.min() / tr) if tr > 0 else 0.0)
        ctx.check("C13.psd", w.min() >= -(1e-9 * abs(tr) + 1e-12), fsite, "smallest eigenvalue >= -1e-9*trace", icls,
                  witness=dict(wit, mat=G, eigmin=float(w.min())), coords=coords)
    else:
        ctx.check("C13.psd", False, fsite, "finite entries", icls, witness=dict(wit, mat=G), coords=coords)
    # -- labels of the source
    lcls = src["labels"]
    okl = same_labels(cm.taxa, src["taxa_now"])
    ctx.check("C13.labels", okl, fsite, "taxa == source taxa", lcls,
              witness=dict(wit, got=cm.taxa, source=src["taxa_now"]), coords=coords)
    ctx.check("C13.labels", same_labels(cm.taxa_grp, src["grp_now"]), fsite, "taxa_grp == source taxa_grp", lcls,
              witness=dict(wit, got=cm.taxa_grp, source=src["grp_now"]), coords=coords)
    for f in ("taxa_grp_name", "taxa_grp_stix", "taxa_grp_spix", "taxa_grp_len"):
        got = getattr(cm, f)
        if got is not None:  # group index metadata, when carried, must be the source's
            ctx.check("C13.labels", same_labels(got, src["meta_now"][f]), fsite, "%s == source %s" % (f, f), lcls,
                      witness=dict(wit, got=got, source=src["meta_now"][f]), coords=coords)
    judge_readonly(ctx, cm, G, src["pair"], src["axis"], coords, wit)
    return G


def judge_readonly(ctx, cm, G, pair, axis, coords, wit, state=None):
    """Views, element access, summaries, PSD flag of a live object against direct evaluation on ``G`` (a copy of its
    CURRENT ``mat``).  With ``state`` (history mode) every evaluation counts under C13.summary.history and the finding
    key's input class is the state of the object ("after in-place taxa reordering", ...), the site the summary method."""
    def cl(name):
        return "C13.summary.history" if state else name

    cap = [""]  # set per format: the documented case-insensitive spellings are all driven

    def ic(x):
        return (state + cap[0]) if state else (x + cap[0])

    def spell(fmt, k):
        k %= 4
        sp = [fmt, fmt.capitalize(), fmt.upper(), "".join(ch.upper() if i % 2 else ch for i, ch in enumerate(fmt))][k]
        return sp, ("" if k == 0 else "/format spelled with capitals")
    v0 = int(pair[0]) % 4
    sp_co, cap_co = spell("coancestry", v0)
    sp_ki, cap_ki = spell("kinship", v0 + 1)
    wit = dict(wit, format_spellings=[sp_co, sp_ki])
    n = G.shape[0]
    finite = bool(numpy.all(numpy.isfinite(G)))
    scale = float(numpy.abs(G).max()) if G.size and finite else 0.0
    w = numpy.linalg.eigvalsh(0.5 * (G + G.T)) if finite and n else None
    # -- kinship view = exactly half the coancestry view
    ok, views = returns(ctx, defsite(cm, "mat_asformat"), ic("both formats"), coords,
                        lambda: (cm.mat_asformat(sp_co), cm.mat_asformat(sp_ki)), wit)
    if ok:
        co, ki = views
        ctx.check(cl("C13.kinship"), isinstance(co, numpy.ndarray) and numpy.array_equal(co, G, equal_nan=True),
                  defsite(cm, "mat_asformat"), "coancestry view == mat", "coancestry" + cap_co if not state else state + cap_co, witness=dict(wit, mat=G, view=co), coords=coords)
        ctx.check(cl("C13.kinship"), isinstance(ki, numpy.ndarray) and numpy.array_equal(ki, 0.5 * G, equal_nan=True),
                  defsite(cm, "mat_asformat"), "kinship view == 0.5 * coancestry view (exact)", "kinship" + cap_ki if not state else state + cap_ki,
                  witness=dict(wit, mat=G, view=ki), coords=coords)
    i, j = pair
    if n:
        i %= n; j %= n
        ok, v = returns(ctx, defsite(cm, "kinship"), ic("element access"), coords, lambda: (cm.coancestry(i, j), cm.kinship(i, j)), wit)
        if ok:
            ctx.check(cl("C13.kinship"), v[0] == G[i, j] or (v[0] != v[0] and G[i, j] != G[i, j]), defsite(cm, "coancestry"),
                      "coancestry(i,j) == mat[i,j]", ic("element access"), witness=dict(wit, i=i, j=j, got=v[0], mat=G), coords=coords)
            ctx.check(cl("C13.kinship"), v[1] == 0.5 * G[i, j] or (v[1] != v[1] and G[i, j] != G[i, j]), defsite(cm, "kinship"),
                      "kinship(i,j) == 0.5 * coancestry(i,j) (exact)", ic("element access"),
                      witness=dict(wit, i=i, j=j, got=v[1], mat=G), coords=coords)
        # every index form the accessors accept (they forward the arguments to mat[...]); each answer is judged against the
        # snapshot G, and the stored matrix must still equal G right after the access (an index that yields a numpy view
        # must not be scaled in place).  Summaries below are judged against the same G, so they see any damage done here.
        a, b = sorted((i, j)); b = b + 1
        ia = numpy.array([i, j, (i + j) % n]); ib = numpy.array([j, j, i])
        forms = [("no arguments", ()), ("single int (row)", (i,)), ("slices", (slice(a, b), slice(0, max(1, n - 1)))),
                 ("single slice", (slice(a, b),)), ("Ellipsis", (Ellipsis,)), ("int and slice", (i, slice(None))),
                 ("slice and int", (slice(None, None, 2), j)), ("negative ints", (-1 - i, -1 - j)),
                 ("index arrays", (ia, ib)), ("single index array", (ia,)), ("int and Ellipsis", (j, Ellipsis))]
        for fname, args in forms:
            viewform = isinstance(G[args], numpy.ndarray) and numpy.shares_memory(G[args], G)
            kind = "index form yields a view" if viewform else "index form yields a copy or scalar"
            ref = numpy.array(G[args], copy=True)
            for meth, hh in (("coancestry", 1.0), ("kinship", 0.5)):
                site = defsite(cm, meth)
                before = numpy.array(cm.mat, copy=True)  # blame only the access that changes the stored matrix
                ok, got = returns(ctx, site, ic("element access"), coords, lambda: getattr(cm, meth)(*args), dict(wit, index=fname))
                if not ok:
                    continue
                gotc = numpy.array(got, dtype=float, copy=True)
                ctx.check(cl("C13.kinship"), gotc.shape == ref.shape and numpy.array_equal(gotc, hh * ref, equal_nan=True), site,
                          "%s(index) == %s mat[index] (exact)" % (meth, "" if hh == 1.0 else "0.5 *"), ic("element access"),
                          witness=dict(wit, index=fname, got=gotc, expected=hh * ref, mat=G), coords=coords)
                del got
                ctx.check(cl("C13.intact"), numpy.array_equal(cm.mat, before, equal_nan=True), site,
                          "mat unchanged by element access (%s)" % kind, ic("after read-only calls"),
                          witness=dict(wit, index=fname, before=before, after=cm.mat), coords=coords)
    if not finite:
        return
    # -- summaries against direct evaluation on the matrix
    flat = G.ravel().tolist()
    for fmt in FORMATS:
        spf, cap[0] = (sp_co, cap_co) if fmt == "coancestry" else (sp_ki, cap_ki)
        h = 1.0 if fmt == "coancestry" else 0.5
        K = h * G
        kflat = [h * v for v in flat]
        # extreme values
        for name, ref in (("max", max(kflat)), ("min", min(kflat)), ("max_inbreeding", max(h * G[a, a] for a in range(n)))):
            site = defsite(cm, name)
            ok, got = returns(ctx, site, ic(fmt), coords, lambda: getattr(cm, name)(format=spf), wit)
            if ok:
                ctx.check(cl("C13.summary.extreme"), numpy.ndim(got) == 0 and float(got) == ref, site, "== direct evaluation on mat (exact)",
                          ic(fmt), witness=dict(wit, mat=G, got=got, expected=ref), coords=coords)
        ax = axis
        for name, ref in (("max", K.max(axis=ax)), ("min", K.min(axis=ax))):
            site = defsite(cm, name)
            ok, got = returns(ctx, site, ic(fmt + "/axis"), coords, lambda: getattr(cm, name)(format=spf, axis=ax), wit)
            if ok:
                refl = [max(col) if name == "max" else min(col) for col in (K.T.tolist() if ax == 0 else K.tolist())]
                ctx.check(cl("C13.summary.extreme"), numpy.shape(got) == (n,) and numpy.asarray(got).tolist() == refl, site,
                          "== direct evaluation on mat (exact)", ic(fmt + "/axis"), witness=dict(wit, mat=G, axis=ax, got=got, expected=refl),
                          coords=coords)
        # mean
        site = defsite(cm, "mean")
        ref = math.fsum(kflat) / (n * n)
        ok, got = returns(ctx, site, ic(fmt), coords, lambda: cm.mean(format=spf), wit)
        if ok:
            err = abs(float(got) - ref) if numpy.ndim(got) == 0 else float("inf")
            ctx.maxnote("mean error / tolerance", err / O.tol(h * scale))
            ctx.check(cl("C13.summary.mean"), err <= O.tol(h * scale), site, "== sum(mat)/n^2", ic(fmt),
                      witness=dict(wit, mat=G, got=got, expected=ref), coords=coords)
        ok, got = returns(ctx, site, ic(fmt + "/axis"), coords, lambda: cm.mean(format=spf, axis=ax), wit)
        if ok:
            refl = [math.fsum(col) / n for col in (K.T.tolist() if ax == 0 else K.tolist())]
            ctx.check(cl("C13.summary.mean"), O.maxerr(got, refl) <= O.tol(h * scale), site, "== sum(mat)/n^2", ic(fmt + "/axis"),
                      witness=dict(wit, mat=G, axis=ax, got=got, expected=refl), coords=coords)
        # inverse and minimum attainable inbreeding
        invertible = w.min() > 0 and w.max() / w.min() <= 1e6
        if not invertible:
            ctx.sumnote("matrices not numerically invertible (inverse / min_inbreeding not judged)")
            for name in ("inverse", "min_inbreeding"):
                try:
                    getattr(cm, name)(format=spf)
                except Exception as e:
                    ctx.raised("%s on a singular matrix" % name, e)
            continue
        cond = float(w.max() / w.min())
        Ks = 0.5 * (K + K.T)
        site = defsite(cm, "inverse")
        ok, got = returns(ctx, site, ic(fmt), coords, lambda: cm.inverse(format=spf), wit)
        if ok:
            ref = numpy.linalg.solve(Ks.astype(O.LD).astype(float), numpy.eye(n))
            # the defining relation, judged on the residual: K @ got == I
            good = isinstance(got, numpy.ndarray) and got.shape == (n, n) and bool(numpy.all(numpy.isfinite(got)))
            res = float(numpy.abs(K @ got - numpy.eye(n)).max()) if good else float("inf")
            err = O.maxerr(got, ref) if good else float("inf")
            lim = 1e-9 * cond * max(1.0, float(numpy.abs(ref).max()))  # conditioning enters the attainable accuracy
            ctx.maxnote("inverse residual", res if res < float("inf") else 0.0)
            ctx.check(cl("C13.summary.inverse"), res <= 1e-9 * cond + 1e-12 and err <= lim + 1e-12, site, "mat @ inverse == I", ic(fmt),
                      witness=dict(wit, mat=G, got=got, residual=res, err=err, cond=cond), coords=coords)
        site = defsite(cm, "min_inbreeding")
        ok, got = returns(ctx, site, ic(fmt), coords, lambda: cm.min_inbreeding(format=spf), wit)
        if ok:
            # minimum of x'Kx subject to sum(x) = 1, from the KKT system (not from the closed form)
            kkt = numpy.zeros((n + 1, n + 1)); kkt[:n, :n] = 2 * Ks; kkt[:n, n] = 1.0; kkt[n, :n] = 1.0
            rhs = numpy.zeros(n + 1); rhs[n] = 1.0
            xs = numpy.linalg.solve(kkt, rhs)[:n]
            ref = float(xs @ Ks @ xs)
            err = abs(float(got) - ref) if numpy.ndim(got) == 0 else float("inf")
            lim = 1e-9 * cond * max(abs(ref), h * scale) + 1e-12
            ctx.maxnote("min_inbreeding error / tolerance", err / lim)
            ctx.check(cl("C13.summary.min_inbreeding"), err <= lim, site, "== min x'Gx subject to sum(x)=1", ic(fmt),
                      witness=dict(wit, mat=G, got=got, expected=ref, cond=cond), coords=coords)
    cap[0] = ""
    # -- PSD flag where it does not depend on a tolerance choice
    s = float(numpy.abs(w).max())
    if s > 0 and abs(w.min()) > 1e-6 * s:
        site = defsite(cm, "is_positive_semidefinite")
        ok, got = returns(ctx, site, ic("clear-cut spectrum"), coords, lambda: cm.is_positive_semidefinite(), wit)
        if ok:
            ctx.check(cl("C13.psdflag"), bool(got) == bool(w.min() > 0), site, "flag == (smallest eigenvalue >= 0)", ic("clear-cut spectrum"),
                      witness=dict(wit, mat=G, got=got, eigmin=float(w.min())), coords=coords)
    # -- read-only calls left the matrix alone
    ctx.check(cl("C13.intact"), numpy.array_equal(cm.mat, G, equal_nan=True), "DenseCoancestryMatrix",
              "mat unchanged by views and summaries", ic("after read-only calls"), witness=dict(wit, before=G, after=cm.mat), coords=coords)


# ------------------------------------------------------------------ one case
def estimator_plan(g, src):
    """Arguments (and their class) for the four estimators; None when the case is outside an estimator's domain."""
    m, ploidy = src["m"], src["ploidy"]
    x = O.dosage(src["alleles_now"])
    phat = O.sample_freq(x, ploidy)
    poly_any = bool(numpy.any((phat > 0) & (phat < 1)))
    poly_all = bool(numpy.all((phat > 0) & (phat < 1)))
    plan = {"molecular": ({}, "no arguments")}
    # VanRaden
    mode = str(g.choice(["none", "scalar", "vector", "vector-boundary"]))
    arg = gen_freq(g, m, mode)
    if mode == "none" and not poly_any:
        plan["vanraden"] = None
    else:
        if mode == "vector-boundary" and not numpy.any((arg > 0) & (arg < 1)):
            arg[int(g.integers(m))] = 0.5
        plan["vanraden"] = ({"p_anc": arg}, "p_anc " + mode)
    # Yang
    mode = str(g.choice(["none", "scalar", "vector"]))
    arg = gen_freq(g, m, mode)
    plan["yang"] = None if (mode == "none" and not poly_all) else ({"p_anc": arg}, "p_anc " + mode)
    # generalised weighted
    mode = str(g.choice(["none", "scalar", "scalar-boundary", "vector", "vector-boundary", "int-vector"]))
    arg = g.integers(0, 2, m).astype("int64") if mode == "int-vector" else gen_freq(g, m, mode)
    wt, wmode = gen_weights(g, m)
    plan["gweighted"] = ({"mkrwt": wt, "afreq": arg}, "afreq %s/mkrwt %s" % (mode, wmode))
    return plan


def expected(est, kwargs, alleles, ploidy):
    x = O.dosage(alleles)
    m = x.shape[1]
    if est == "molecular":
        return O.molecular_float(alleles), 2.0
    if est == "vanraden":
        return O.vanraden(x, ploidy, freq_vector(kwargs["p_anc"], x, ploidy, m))
    if est == "yang":
        return O.yang(x, ploidy, freq_vector(kwargs["p_anc"], x, ploidy, m))
    w = kwargs["mkrwt"]
    w = numpy.ones(m) if w is None else (numpy.full(m, float(w)) if numpy.ndim(w) == 0 else w)
    return O.gweighted(x, ploidy, freq_vector(kwargs["afreq"], x, ploidy, m), w)


def key_class(est, kwargs, ploidy):
    """Coarse input class for finding keys: ploidy path and how the reference frequencies / weights were supplied."""
    parts = ["ploidy %d" % ploidy]
    for name in ("p_anc", "afreq"):
        if name in kwargs:
            v = kwargs[name]
            parts.append("re-estimated frequencies" if v is None else ("scalar frequency" if numpy.ndim(v) == 0 else "frequency vector"))
    if "mkrwt" in kwargs:
        parts.append("default weights" if kwargs["mkrwt"] is None else "given weights")
    return "/".join(parts)


def copy_kwargs(kw):
    return {k: (v.copy() if isinstance(v, numpy.ndarray) else v) for k, v in kw.items()}


def one_case(ctx, c):
    g = ctx.rng("rel", c)
    src = gen_source(g)
    A, ploidy, phased, n, m = src["alleles"], src["ploidy"], src["phased"], src["n"], src["m"]
    coords = [c, "rel"]
    vl = gen_vlabels(ctx.rng("rel-vlabels", c), m)   # own stream: the rest of the case is unchanged by this draw
    src["vlabels"] = vl[0]
    gm = make_gmat(A, phased, ploidy, src["taxa"], src["taxa_grp"], vl)
    mask0 = None if gm.vrnt_mask is None else gm.vrnt_mask.copy()
    if src["labels"] == "grouped":
        try:
            gm.group_taxa()
        except Exception as e:  # not this property's business
            ctx.raised("group_taxa (workload set-up)", e)
    # the source as handed to the estimators (read back through plain attributes after the optional grouping)
    raw = numpy.array(gm.mat, copy=True)
    A_now = raw.astype(numpy.int64) if phased else O.alleles_from_dosage(raw, ploidy)
    src["alleles_now"] = A_now
    src["taxa_now"] = None if gm.taxa is None else gm.taxa.copy()
    src["grp_now"] = None if gm.taxa_grp is None else gm.taxa_grp.copy()
    src["meta_now"] = {f: (None if getattr(gm, f) is None else numpy.array(getattr(gm, f), copy=True))
                       for f in ("taxa_grp_name", "taxa_grp_stix", "taxa_grp_spix", "taxa_grp_len")}
    src["pair"] = (int(g.integers(0, 1 << 30)), int(g.integers(0, 1 << 30)))
    src["axis"] = int(g.integers(0, 2))
    plan = estimator_plan(g, src)
    perm = g.permutation(n)
    ksub = int(g.integers(1, n + 1))
    sub = g.permutation(n)[:ksub]
    use_factory = (c % 4 == 0)
    ctx.case("%s/%s/%s" % (src["kind"], src["content"], src["labels"]), raw, src["taxa_now"], src["grp_now"],
             repr({k: (None if v is None else {a: (b.tolist() if isinstance(b, numpy.ndarray) else b) for a, b in v[0].items()})
                   for k, v in plan.items()}), perm, sub, trivial=(n < 2 or m < 2))
    if c % 101 == 0:
        ctx.sample({"case": c, "kind": src["kind"], "content": src["content"], "labels": src["labels"], "n": n, "m": m,
                    "mat": raw if raw.size <= 200 else "shape %s" % (raw.shape,), "taxa": src["taxa_now"],
                    "arguments": {k: (None if v is None else v[1]) for k, v in plan.items()}})
    cls = classes()
    ctx.sumnote("sources with: %s" % vl[0])
    twin = None if vl[0] == "no variant labels" else make_gmat(A_now, phased, ploidy, src["taxa_now"], src["grp_now"])
    for est in ("molecular", "vanraden", "yang", "gweighted"):
        if plan[est] is None:
            ctx.sumnote("out of domain: %s with sample frequencies on the boundary" % est)
            continue
        kwargs, acls = plan[est]
        Cls, Fac = cls[est]
        icls = key_class(est, kwargs, ploidy)
        ctx.sumnote("driven: %s on %s with %s" % (est, src["kind"], acls))
        site = "%s.from_gmat" % Cls.__name__
        wit = {"estimator": est, "source": src["kind"], "source_mat": raw, "ploidy": ploidy, "argument_class": acls, "arguments": kwargs,
               "variant_labels": vl[0], "vrnt_mask": mask0}
        ok, cm = returns(ctx, site, icls, coords, lambda: Cls.from_gmat(gm, **copy_kwargs(kwargs)), wit)
        if not ok:
            continue
        exp, esc = expected(est, kwargs, A_now, ploidy)
        good = isinstance(cm, Cls) and isinstance(cm.mat, numpy.ndarray) and cm.mat.shape == (n, n) and cm.mat.dtype == numpy.float64
        err = O.maxerr(cm.mat, exp) if good else float("inf")
        ctx.maxnote("%s definition error / tolerance" % est, err / O.tol(esc) if err < float("inf") else 0.0)
        ctx.check("C13.def.%s" % est, err <= O.tol(esc), site, "mat == published formula", icls,
                  witness=dict(wit, got=cm.mat if good else repr(cm), expected=exp, err=err), coords=coords)
        ctx.check("C13.intact", numpy.array_equal(gm.mat, raw) and same_labels(gm.taxa, src["taxa_now"])
                  and same_labels(gm.taxa_grp, src["grp_now"]) and same_labels(gm.vrnt_mask, mask0), site, "source genotype matrix unchanged", src["kind"], witness=wit, coords=coords)
        if not good:
            continue
        if twin is not None:
            # optional variant labels (mask, names, positions, haplotype groups...) are not data of any estimator:
            # the twin source that differs only by lacking them must give the same matrix and the same taxon labels
            ok, ct = returns(ctx, site, icls + "/unlabelled twin", coords, lambda: Cls.from_gmat(twin, **copy_kwargs(kwargs)), wit)
            if ok:
                e3 = O.maxerr(cm.mat, ct.mat)
                ctx.check("C13.labels.optional", e3 <= O.tol(esc) and same_labels(cm.taxa, ct.taxa) and same_labels(cm.taxa_grp, ct.taxa_grp),
                          site, "mat and taxon labels == those from the twin source without optional variant labels", vl[0],
                          witness=dict(wit, got=cm.mat, twin=ct.mat, err=e3), coords=coords)
        G = judge_matrix(ctx, est, cm, src, icls, coords, wit)
        # -- permutation / sub-selection of taxa commute with the estimator
        reest = any(v is None for k, v in kwargs.items() if k in ("p_anc", "afreq")) and est != "molecular"
        for idx, clause, what in ((perm, "C13.equivariance.perm", "permutation"), (sub, "C13.equivariance.subset", "sub-selection")):
            if reest and clause.endswith("subset"):
                continue  # re-estimated reference frequencies change with the subset: not claimed
            ecls = icls
            t2 = None if src["taxa_now"] is None else src["taxa_now"][idx]
            g2 = None if src["grp_now"] is None else src["grp_now"][idx]
            gm2 = make_gmat(A_now[:, idx, :], phased, ploidy, t2, g2)
            ok, cm2 = returns(ctx, site, ecls + "/" + what, coords, lambda: Cls.from_gmat(gm2, **copy_kwargs(kwargs)), wit)
            if not ok:
                continue
            ref = G[idx][:, idx]
            e2 = O.maxerr(cm2.mat, ref)
            ctx.check(clause, e2 <= O.tol(esc) and same_labels(cm2.taxa, t2), site, "f(G[idx]) == f(G)[idx][:,idx] with labels", ecls,
                      witness=dict(wit, index=idx, got=cm2.mat, expected=ref, taxa=cm2.taxa, taxa_expected=t2), coords=coords)
        # -- factory gives the same object
        if use_factory:
            fsite = "%s.from_gmat" % Fac.__name__
            ok, cf = returns(ctx, fsite, icls, coords, lambda: Fac().from_gmat(gm, **copy_kwargs(kwargs)), wit)
            if ok:
                ctx.check("C13.factory", type(cf) is Cls and O.maxerr(cf.mat, G) <= O.tol(esc) and same_labels(cf.taxa, cm.taxa)
                          and same_labels(cf.taxa_grp, cm.taxa_grp), fsite, "factory result == class constructor result", icls,
                          witness=dict(wit, got=getattr(cf, "mat", repr(cf)), expected=G), coords=coords)



# ------------------------------------------------------------------ summary calls along an operation history
HIST_OPS = ["reorder_taxa", "reorder_taxa", "sort_taxa", "group_taxa", "remove_taxa", "select_taxa", "assign mat", "assign mat", "no-op"]
STATE_OF = {"reorder_taxa": "after in-place taxa reordering", "sort_taxa": "after in-place taxa reordering",
            "group_taxa": "after in-place taxa reordering", "remove_taxa": "after in-place taxa removal",
            "select_taxa": "on a select_taxa result object", "assign mat": "after mat assignment",
            "no-op": None}


def case_history(ctx, c):
    """A live coancestry object is queried (all views and summaries), changed through the public in-place API, and queried
    again; after every step every answer must describe the object's CURRENT ``mat``.  Whether the operation itself
    permuted/removed the right rows is C03's business: the reference is always recomputed from ``cm.mat`` as it now is."""
    g = ctx.rng("hist", c)
    coords = [c, "hist"]
    ploidy = int(g.choice([1, 2], p=[0.3, 0.7])); phased = bool(g.random() < 0.5)
    n = int(g.integers(2, 9)); m = int(g.integers(n + 2, 41))
    A = (g.random((ploidy, n, m)) < g.uniform(0.15, 0.85, m)[None, None, :]).astype(numpy.int64)
    lab = str(g.choice(["named+grp", "named+grp", "named", "grp-only", "none"]))
    taxa = numpy.array(["t%03d" % i for i in g.permutation(n)], dtype=object) if lab in ("named", "named+grp") else None
    grp = g.integers(0, 3, n).astype("int64") if lab in ("named+grp", "grp-only") else None
    gm = make_gmat(A, phased, ploidy, taxa, grp)
    est = str(g.choice(["molecular", "vanraden", "yang", "gweighted"]))
    if est == "molecular":
        kwargs = {}
    elif est == "gweighted":
        kwargs = {"mkrwt": g.uniform(0.2, 2.0, m), "afreq": g.uniform(0.1, 0.9, m)}
    else:
        kwargs = {"p_anc": g.uniform(0.1, 0.9, m)}
    Cls = classes()[est][0]
    nsteps = int(g.integers(3, 8))
    ops = [str(g.choice(HIST_OPS)) for _ in range(nsteps)]
    ctx.case("history/%s/%s" % (est, lab), A, phased, taxa, grp, repr(sorted((k, v.tolist()) for k, v in kwargs.items())), ops)
    if c % 101 == 0:
        ctx.sample({"case": c, "family": "history", "estimator": est, "n": n, "m": m, "labels": lab, "operations": ops})
    wit = {"estimator": est, "source_mat": numpy.array(gm.mat, copy=True), "ploidy": ploidy, "arguments": kwargs, "history": []}
    ok, cm = returns(ctx, "%s.from_gmat" % Cls.__name__, "history set-up", coords, lambda: Cls.from_gmat(gm, **copy_kwargs(kwargs)), wit)
    if not ok:
        return
    pair = (int(g.integers(0, 1 << 30)), int(g.integers(0, 1 << 30)))
    state = "on a fresh object"
    for step in range(nsteps + 1):
        G = numpy.array(cm.mat, dtype=float, copy=True)
        judge_readonly(ctx, cm, G, pair, int(g.integers(0, 2)), coords, dict(wit, history=list(wit["history"]), state=state), state=state)
        if step == nsteps:
            break
        op = ops[step]
        nn = G.shape[0]
        detail = None
        try:
            if op == "reorder_taxa":
                if nn < 2:
                    op = "no-op"
                else:
                    perm = g.permutation(nn)
                    while numpy.array_equal(perm, numpy.arange(nn)):
                        perm = g.permutation(nn)
                    detail = perm.tolist(); cm.reorder_taxa(perm)
            elif op == "sort_taxa":
                cm.sort_taxa()
            elif op == "group_taxa":
                cm.group_taxa()
            elif op == "remove_taxa":
                if nn < 3:
                    op = "no-op"
                else:
                    detail = int(g.integers(0, nn)); cm.remove_taxa(detail)
            elif op == "select_taxa":
                k = int(g.integers(2, nn + 1)) if nn >= 2 else nn
                idx = g.permutation(nn)[:k]
                detail = idx.tolist(); cm = cm.select_taxa(idx)
            elif op == "assign mat":
                mode = int(g.integers(0, 3)); detail = ["permuted", "scaled + ridge", "fresh Gram matrix"][mode]
                if mode == 0 and nn >= 2:
                    perm = numpy.roll(numpy.arange(nn), 1); new = numpy.ascontiguousarray(G[perm][:, perm])
                elif mode == 1:
                    new = 1.5 * G + numpy.diag(g.uniform(0.1, 1.0, nn))
                else:
                    B = g.normal(size=(nn, nn + 3)); new = B @ B.T / (nn + 3)
                cm.mat = new
        except Exception as e:  # the operation is not this property's subject (policy 2.1: state clauses)
            ctx.raised("history operation %s" % op, e)
            wit["history"].append([op, detail, "raised %s" % type(e).__name__])
            continue
        wit["history"].append([op, detail])
        ctx.sumnote("history steps: %s" % op)
        if not numpy.array_equal(cm.mat, G):
            ctx.sumnote("history steps that changed mat")
        if op != "no-op":  # a repeated query keeps the class of the last change
            state = STATE_OF[op]


# ------------------------------------------------------------------ long-lived factory objects
def _fac_source(g, m, need):
    """A fresh genotype source with ``m`` markers; ``need`` in (None, 'any', 'all') = polymorphism the call's domain needs."""
    for _ in range(6):
        kname, ploidy, phased = KINDS[int(g.choice(4, p=[0.35, 0.35, 0.15, 0.15]))]
        n = int(g.integers(3, 11))
        A = (g.random((ploidy, n, m)) < g.uniform(0.25, 0.75, m)[None, None, :]).astype(numpy.int64)
        ph = O.sample_freq(O.dosage(A), ploidy)
        inside = (ph > 0) & (ph < 1)
        if need is None or (need == "any" and inside.any()) or (need == "all" and inside.all()):
            break
    else:
        A[:, 0, :] = 0; A[:, 1, :] = 1  # two complementary taxa make every marker polymorphic
    lab = str(g.choice(["named+grp", "named", "none"]))
    taxa = numpy.array(["f%03d" % i for i in g.permutation(n)], dtype=object) if lab != "none" else None
    grp = g.integers(0, 3, n).astype("int64") if lab == "named+grp" else None
    return kname, ploidy, phased, A, taxa, grp, gen_vlabels(g, m)


def _opt_arg(g, m, kind):
    """One optional argument: ('omitted'|'none'|'scalar'|'vector', value)."""
    mode = str(g.choice(["omitted", "none", "scalar", "vector", "vector"]))
    if mode in ("omitted", "none"):
        return mode, None
    if kind == "freq":
        return mode, (float(g.uniform(0.1, 0.9)) if mode == "scalar" else g.uniform(0.05, 0.95, m))
    return mode, (float(g.choice([0.5, 2.0, 3.0])) if mode == "scalar" else g.uniform(0.0, 2.0, m) * (g.random(m) < 0.85))


def case_factory(ctx, c):
    """Factory objects (pybrops.popgen.cmat.fcty) kept alive over several from_gmat calls with different genotype matrices
    (same marker count) and different optional arguments (given, then omitted, explicit None, positional), interleaved
    with a second instance of the same factory class and with the estimator's classmethod.  Every result must be the
    formula for THAT call's source and THAT call's arguments; argument arrays and the source must come back unchanged."""
    g = ctx.rng("fac", c)
    coords = [c, "fac"]
    est = str(g.choice(["molecular", "vanraden", "vanraden", "yang", "yang", "gweighted", "gweighted"]))
    Cls, Fac = classes()[est]
    m = int(g.integers(2, 26))
    ncalls = int(g.integers(3, 8))
    ok, facs = returns(ctx, "%s.__init__" % Fac.__name__, "no arguments", coords, lambda: [Fac(), Fac()])
    if not ok:
        return
    argnames = {"molecular": [], "vanraden": ["p_anc"], "yang": ["p_anc"], "gweighted": ["mkrwt", "afreq"]}[est]
    prev = "first call"
    gm = None; hist = []
    ctx.case("factory history/%s" % est, c, m, ncalls)
    for call in range(ncalls):
        modes, kwargs = {}, {}
        for a in argnames:
            modes[a], kwargs[a] = _opt_arg(g, m, "weight" if a == "mkrwt" else "freq")
        fmode = modes.get("p_anc", modes.get("afreq"))
        need = None if (est in ("molecular", "gweighted") or fmode not in ("omitted", "none")) else ("any" if est == "vanraden" else "all")
        reuse = gm is not None and g.random() < 0.3
        if reuse:  # the same source object again (possibly re-ordered in place in between): identity-keyed caches
            if g.random() < 0.5 and gm.ntaxa >= 2:
                try:
                    gm.reorder_taxa(g.permutation(gm.ntaxa))
                except Exception as e:
                    ctx.raised("reorder_taxa (workload set-up)", e)
            raw = numpy.array(gm.mat, copy=True)
            A = raw.astype(numpy.int64) if phased else O.alleles_from_dosage(raw, ploidy)
            ph = O.sample_freq(O.dosage(A), ploidy); inside = (ph > 0) & (ph < 1)
            if (need == "any" and not inside.any()) or (need == "all" and not inside.all()):
                reuse = False
        if not reuse:
            kname, ploidy, phased, A, taxa, grp, vl = _fac_source(g, m, need)
            gm = make_gmat(A, phased, ploidy, taxa, grp, vl)
            raw = numpy.array(gm.mat, copy=True)
        src_taxa = None if gm.taxa is None else gm.taxa.copy()
        src_grp = None if gm.taxa_grp is None else gm.taxa_grp.copy()
        route = str(g.choice(["factory A", "factory A", "factory A", "factory B", "classmethod"]))
        passed = {a: (v.copy() if isinstance(v, numpy.ndarray) else v) for a, v in kwargs.items() if modes[a] != "omitted"}
        positional = bool(passed) and len(argnames) == 1 and g.random() < 0.3
        if route == "classmethod":
            site = "%s.from_gmat" % Cls.__name__; callee = Cls.from_gmat
        else:
            site = "%s.from_gmat" % Fac.__name__; callee = facs[0 if route == "factory A" else 1].from_gmat
        given = [a for a in argnames if modes[a] in ("scalar", "vector")]
        this = "no optional arguments exist" if not argnames else (
            "optional arguments left to their defaults" if not given else
            ("all optional arguments given" if len(given) == len(argnames) else "some optional arguments given"))
        icls = "%s, %s" % (this, prev)
        hist.append({"route": route, "n": int(gm.ntaxa), "same source object": bool(reuse), "modes": dict(modes), "positional": positional,
                     "variant labels": vl[0]})
        wit = {"estimator": est, "calls so far": list(hist), "source_mat": raw, "ploidy": ploidy, "arguments": kwargs}
        ok, cm = returns(ctx, site, icls, coords,
                         (lambda: callee(gm, *passed.values())) if positional else (lambda: callee(gm, **passed)), wit)
        prev = "after a call that gave optional arguments" if given else "after a call without optional arguments"
        ctx.sumnote("factory calls: %s / %s" % (route, this))
        if not ok:
            continue
        exp, esc = expected(est, kwargs, A, ploidy)
        good = type(cm) is Cls and isinstance(cm.mat, numpy.ndarray) and cm.mat.shape == exp.shape
        err = O.maxerr(cm.mat, exp) if good else float("inf")
        ctx.check("C13.factory.history", err <= O.tol(esc), site, "mat == published formula for this call's source and arguments", icls,
                  witness=dict(wit, got=cm.mat if good else repr(cm), expected=exp, err=err), coords=coords)
        ctx.check("C13.factory.history", good and same_labels(cm.taxa, src_taxa) and same_labels(cm.taxa_grp, src_grp), site,
                  "labels == this call's source labels", icls, witness=dict(wit, got=getattr(cm, "taxa", None), source=src_taxa), coords=coords)
        same_args = all((numpy.array_equal(passed[a], kwargs[a]) if isinstance(kwargs[a], numpy.ndarray) else passed[a] == kwargs[a])
                        for a in passed)
        ctx.check("C13.factory.history", same_args and numpy.array_equal(gm.mat, raw), site,
                  "argument arrays and source unchanged by the call", icls, witness=wit, coords=coords)


# ------------------------------------------------------------------ the matrices' own selection / removal / reordering
SEL_FORMS = ["index array", "list", "tuple", "range", "negative indices", "mixed negative indices", "narrow integer dtype",
             "repeated indices", "boolean mask", "boolean list", "integer scalar", "empty"]
DEL_FORMS = ["python int", "negative int", "numpy integer scalar", "list", "negative indices", "index array", "narrow integer dtype",
             "slice", "boolean mask", "repeated indices", "empty"]
ORD_FORMS = ["index array", "list", "negative indices", "mixed negative indices", "narrow integer dtype", "non-permutation index"]


def _index_form(g, n, form, for_delete=False):
    """Index argument of class ``form`` for an axis of length n."""
    k = int(g.integers(1, n + 1)) if not for_delete else int(g.integers(1, max(2, n - 1)))
    base = g.permutation(n)[:k].astype(numpy.int64)
    if form == "index array":
        return base
    if form == "list":
        return base.tolist()
    if form == "tuple":
        return tuple(base.tolist())
    if form == "range":
        a = int(g.integers(0, n)); return range(a, int(g.integers(a + 1, n + 1)))
    if form == "negative indices":
        v = base - n; return v if g.random() < 0.5 else v.tolist()
    if form == "mixed negative indices":
        v = base.copy(); neg = g.random(k) < 0.5
        if not neg.any():
            neg[int(g.integers(k))] = True
        v[neg] -= n; return v if g.random() < 0.5 else v.tolist()
    if form == "narrow integer dtype":
        dt = str(g.choice(["int8", "int16", "int32", "uint8", "uint16", "intp"]))
        v = base.copy()
        if not dt.startswith("u") and g.random() < 0.4:
            v[g.random(k) < 0.5] -= n
        return v.astype(dt)
    if form == "repeated indices":
        return g.integers(0, max(1, n // 2 + 1), int(g.integers(2, n + 2))).astype(numpy.int64)
    if form in ("boolean mask", "boolean list"):
        b = g.random(n) < 0.5
        return b if form == "boolean mask" else b.tolist()
    if form in ("integer scalar", "numpy integer scalar"):
        v = int(g.integers(-n, n)); return [numpy.int64(v), numpy.int32(v), numpy.intp(v)][int(g.integers(0, 3))]
    if form == "python int":
        return int(g.integers(0, n))
    if form == "negative int":
        return int(g.integers(-n, 0))
    if form == "slice":
        a = int(g.integers(0, n)); return slice(a, int(g.integers(a + 1, n + 1)), int(g.choice([1, 1, 2])))
    if form == "empty":
        return [] if g.random() < 0.5 else numpy.array([], dtype=numpy.int64)
    if form == "non-permutation index":
        return g.integers(0, n, int(g.integers(1, n + 1))).astype(numpy.int64)
    raise ValueError(form)


def _admissible(kind, arg, n):
    """Index vectors a correct implementation may realise for ``arg`` (a selection may read a boolean sequence either as
    a mask or, like numpy.take, as 0/1 positions; everything else has one meaning)."""
    ar = numpy.arange(n)
    out = []
    if kind == "delete":
        try:
            out.append(numpy.delete(ar, arg))
        except Exception:
            pass
        return out
    a = numpy.asarray(arg) if not isinstance(arg, (range, slice)) else arg
    if isinstance(a, numpy.ndarray) and a.size == 0:
        a = a.astype(numpy.int64)
    for f in (lambda: numpy.take(ar, a if not isinstance(a, range) else list(a)), lambda: ar[a if not isinstance(a, range) else list(a)]):
        try:
            v = numpy.atleast_1d(f())
            if not any(numpy.array_equal(v, w) for w in out):
                out.append(v)
        except Exception:
            pass
    return out


def case_select(ctx, c):
    """The coancestry object's own select / delete / remove / reorder / sort / group (axis-specific and axis-generic routes) on
    every coancestry class, chained, with every index form the methods accept: the data (rows AND columns) and the taxon
    labels must follow one and the same index vector, the result keeps its class, an out-of-place operation leaves the
    receiver alone, and (fixed reference frequencies) the result is the formula evaluated on the selected genotypes."""
    g = ctx.rng("sel", c)
    coords = [c, "sel"]
    kname, ploidy, phased = KINDS[int(g.choice(4, p=[0.35, 0.35, 0.15, 0.15]))]
    n = int(g.integers(4, 15)); m = int(g.integers(2, 21))
    A = (g.random((ploidy, n, m)) < g.uniform(0.1, 0.9, m)[None, None, :]).astype(numpy.int64)
    lab = str(g.choice(["named+grp", "named+grp", "named", "grp-only", "none", "dupnames"]))
    taxa = numpy.array(["s%03d" % i for i in g.permutation(n)], dtype=object) if lab in ("named", "named+grp", "dupnames") else None
    if lab == "dupnames":
        taxa[g.integers(0, n, max(1, n // 3))] = "same"
    grp = g.integers(0, 3, n).astype("int64") if lab in ("named+grp", "grp-only", "dupnames") else None
    est = str(g.choice(["molecular", "vanraden", "yang", "gweighted"]))
    fixed = True
    if est == "molecular":
        kwargs = {}
    elif est == "gweighted":
        kwargs = {"mkrwt": g.uniform(0.0, 2.0, m), "afreq": g.uniform(0.05, 0.95, m)}
    else:
        kwargs = {"p_anc": g.uniform(0.05, 0.95, m)}
    Cls = classes()[est][0]
    gm = make_gmat(A, phased, ploidy, taxa, grp)
    nops = int(g.integers(3, 7))
    ctx.case("selection history/%s/%s/%s" % (est, kname, lab), A, phased, taxa, grp, c)
    wit = {"estimator": est, "source_mat": numpy.array(gm.mat, copy=True), "ploidy": ploidy, "arguments": kwargs, "history": []}
    ok, cm = returns(ctx, "%s.from_gmat" % Cls.__name__, "selection set-up", coords, lambda: Cls.from_gmat(gm, **copy_kwargs(kwargs)), wit)
    if not ok:
        return
    rows = numpy.arange(n)  # model: which source taxon each current row is
    for step in range(nops):
        G = numpy.array(cm.mat, copy=True); nn = G.shape[0]
        T = None if cm.taxa is None else cm.taxa.copy()
        Tg = None if cm.taxa_grp is None else cm.taxa_grp.copy()
        if nn < 3:
            break
        op = str(g.choice(["select", "select", "select", "delete", "remove", "reorder", "sort", "group"]))
        if step == 0 and g.random() < 0.4:
            op = "select"
        generic = g.random() < 0.35
        axis = int(g.choice([0, 1, -1, -2]))
        form = None; arg = None
        if op == "select":
            form = str(g.choice(SEL_FORMS)); arg = _index_form(g, nn, form)
            meth = "select" if generic else "select_taxa"
            call = (lambda: cm.select(arg, axis=axis)) if generic else (lambda: cm.select_taxa(arg))
            adm = _admissible("select", arg, nn); inplace = False
        elif op in ("delete", "remove"):
            form = str(g.choice(DEL_FORMS)); arg = _index_form(g, nn, form, for_delete=True)
            meth = (op if generic else op + "_taxa")
            call = (lambda: getattr(cm, meth)(arg, axis=axis)) if generic else (lambda: getattr(cm, meth)(arg))
            adm = _admissible("delete", arg, nn); inplace = (op == "remove")
        elif op == "reorder":
            form = str(g.choice(ORD_FORMS))
            if form == "non-permutation index":
                arg = _index_form(g, nn, form)
            else:
                arg = _index_form(g, nn, form)
                full = g.permutation(nn).astype(numpy.int64)   # a genuine permutation in the drawn representation
                if form in ("negative indices",):
                    full = full - nn
                elif form == "mixed negative indices":
                    full[g.random(nn) < 0.5] -= nn
                elif form == "narrow integer dtype":
                    full = full.astype(str(g.choice(["int8", "int32", "uint8"])))
                arg = full.tolist() if form == "list" else full
            meth = "reorder" if generic else "reorder_taxa"
            call = (lambda: cm.reorder(arg, axis=axis)) if generic else (lambda: cm.reorder_taxa(arg))
            adm = _admissible("select", arg, nn); inplace = True
        else:
            form = "library-chosen order"
            meth = (op if generic else op + "_taxa")
            call = (lambda: getattr(cm, meth)(axis=axis)) if generic else (lambda: getattr(cm, meth)())
            inplace = True
            adm = None
        site = defsite(cm, meth)
        w = dict(wit, history=list(wit["history"]), operation=meth, index_form=form, index=arg if not isinstance(arg, (range, slice)) else repr(arg),
                 mat_before=G, taxa_before=T, taxa_grp_before=Tg)
        try:
            res = call()
        except Exception as e:  # which index forms a method accepts is not this property's subject
            ctx.raised("%s with %s" % (meth, form), e)
            wit["history"].append([meth, form, "raised %s" % type(e).__name__])
            continue
        out = cm if inplace else res
        wit["history"].append([meth, form])
        ctx.sumnote("selection steps: %s with %s" % (op, form))
        okshape = isinstance(getattr(out, "mat", None), numpy.ndarray) and out.mat.ndim == 2 and out.mat.shape[0] == out.mat.shape[1]
        ctx.check("C13.equivariance.ops", type(out) is Cls and okshape, site, "result is a square matrix of the receiver's class", form,
                  witness=dict(w, got=repr(out)), coords=coords)
        if not (type(out) is Cls and okshape):
            return
        if not inplace:
            ctx.check("C13.equivariance.ops", numpy.array_equal(cm.mat, G) and same_labels(cm.taxa, T) and same_labels(cm.taxa_grp, Tg), site,
                      "receiver unchanged by an out-of-place operation", form, witness=dict(w, mat_after=cm.mat, taxa_after=cm.taxa), coords=coords)
        if adm is None:  # sort / group: the order is the library's choice; identify it from unique names
            if T is None or len(set(T.tolist())) != nn or out.taxa is None or sorted(out.taxa.tolist()) != sorted(T.tolist()):
                if T is not None and len(set(T.tolist())) == nn:
                    ctx.check("C13.equivariance.ops", False, site, "labels are a rearrangement of the receiver's labels", form,
                              witness=dict(w, taxa_after=getattr(out, "taxa", None)), coords=coords)
                cm = out; rows = None
                continue
            pos = {t: i for i, t in enumerate(T.tolist())}
            adm = [numpy.array([pos[t] for t in out.taxa.tolist()], dtype=numpy.int64)]
        hit = None
        for ix in adm:
            d_ok = out.mat.shape == (len(ix), len(ix)) and numpy.array_equal(out.mat, G[ix][:, ix], equal_nan=True)
            l_ok = same_labels(out.taxa, None if T is None else T[ix]) and same_labels(out.taxa_grp, None if Tg is None else Tg[ix])
            if d_ok and l_ok:
                hit = ix; break
        if hit is None and adm:
            ix = adm[0]
            d_ok = out.mat.shape == (len(ix), len(ix)) and numpy.array_equal(out.mat, G[ix][:, ix], equal_nan=True)
            l_ok = same_labels(out.taxa, None if T is None else T[ix]) and same_labels(out.taxa_grp, None if Tg is None else Tg[ix])
            rel = ("neither data nor labels follow the index" if not (d_ok or l_ok) else
                   ("data (rows and columns) do not follow the index the labels follow" if not d_ok else
                    "labels do not follow the index the data follow"))
            ctx.check("C13.equivariance.ops", False, site, rel, form,
                      witness=dict(w, expected_index=ix, mat_after=out.mat, taxa_after=out.taxa, taxa_grp_after=out.taxa_grp), coords=coords)
            cm = out; rows = None
            continue
        if not adm:
            ctx.sumnote("selection steps whose index has no numpy meaning but were accepted")
            cm = out; rows = None
            continue
        ctx.ok("C13.equivariance.ops")
        rows = None if rows is None else rows[hit]
        if step == 0 and op == "select" and len(hit):
            # the same index handed to the SOURCE's select_taxa, then the estimator: both orders of the two steps must agree
            gsite = defsite(gm, "select_taxa")
            try:
                gsel = gm.select_taxa(arg)
            except Exception as e:
                ctx.raised("genotype matrix select_taxa with %s" % form, e); gsel = None
            if gsel is not None:
                ok2, cm2 = returns(ctx, "%s.from_gmat" % Cls.__name__, "sub-selected source", coords,
                                   lambda: Cls.from_gmat(gsel, **copy_kwargs(kwargs)), w)
                if ok2:
                    sc = float(numpy.abs(out.mat).max()) if out.mat.size else 1.0
                    e2 = O.maxerr(cm2.mat, out.mat)
                    ctx.check("C13.equivariance.ops", e2 <= O.tol(sc) and same_labels(cm2.taxa, out.taxa) and same_labels(cm2.taxa_grp, out.taxa_grp),
                              gsite, "from_gmat(source.select_taxa(index)) == from_gmat(source).select_taxa(index)", form,
                              witness=dict(w, got=cm2.mat, expected=out.mat, taxa_got=cm2.taxa, taxa_expected=out.taxa), coords=coords)
        cm = out
        # tie to the definition: the result is the estimator's formula on the selected genotypes (fixed references)
        if rows is not None and len(rows) and g.random() < 0.5:
            exp, esc = expected(est, kwargs, A[:, rows, :], ploidy)
            err = O.maxerr(cm.mat, exp)
            ctx.check("C13.equivariance.ops", err <= O.tol(esc), site, "result == published formula on the selected genotypes", form,
                      witness=dict(w, source_rows=rows, got=cm.mat, expected=exp, err=err), coords=coords)


FAMILIES = {"rel": (one_case, 10000, 300000), "hist": (case_history, 1500, 40000),
            "fac": (case_factory, 2000, 60000), "sel": (case_select, 2500, 80000)}


def run_shard(ctx):
    for name, (fn, q, t) in FAMILIES.items():
        for c in ctx.case_ids(q, t):
            fn(ctx, c)


def replay(ctx, coords):
    FAMILIES[coords[1]][0](ctx, int(coords[0]))
