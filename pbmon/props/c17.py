"""C17 - sampling utilities honour their proportionality and balance guarantees."""
import numpy

from pbmon import boot  # noqa: F401
from pbmon.oracle import sampling as O

PROPERTY = "C17"
NSHARDS = {"quick": 8, "thorough": 16}
CLAUSES = {
    "C17.sus.shape": 200, "C17.sus.floorceil": 200, "C17.sus.floorceil.strict": 20, "C17.sus.zero": 200,
    "C17.tiled.shape": 100, "C17.tiled.balance": 100,
    "C17.axis.multiset": 100,
    "C17.outcross.multiset": 100, "C17.outcross.noincrease": 100, "C17.outcross.localopt": 100,
}
RULE = ("seeded class-based generators: SUS weight vectors (pools with ties/zeros/1e-12..1e12 magnitudes, sums making "
        "tot/k inexact, adversarial constant-offset generators), k in 1..500 and 1-3-D shapes; tiled choice with distinct "
        "and repeated option sets; axis shuffles of 1-4-D arrays over every axis subset; outcross shuffles of cross tables "
        "up to 12x4 with heavy repeats in every integer index dtype and memory layout (C, Fortran, strided views); tiled "
        "choice with option counts around 2^7, 2^8, 2^15, 2^16; rng = Generator | RandomState | library global.  A case is non-trivial when it has "
        ">1 element/option and (for outcross) at least one repeat; distinct = digest of the full call arguments.")
ASSUME = ["expected counts computed in exact rational arithmetic from the float weights as passed",
          "numpy.random.Generator/RandomState shuffle/choice/uniform are correct (trusted base)"]

POOLS = [[1, 1, 1], [0.1, 0.2, 0.3, 0.4], [1e-12, 1, 1e12], [3] * 7, [0, 0, 1], [0.7, 0.1, 0.1, 0.1],
         [1 / 3, 1 / 3, 1 / 3], [0.1] * 10, [5, 0, 0, 0, 2], [0.3, 0.3, 0.3, 0.1], [1e-300, 1e-300], [2.0 ** -40, 1.0, 1.0],
         [0.05] * 20, [1, 2, 3, 4, 5, 6, 7], [1e6, 1e-6, 1e6, 0.0]]
KS = [1, 2, 3, 5, 7, 10, 12, 49, 98, 100, 103, 250, 500]


from pbmon.gen.advrng import crafted_generator


def mkrng(g, c, allow_adv=False):
    r = int(g.integers(0, 10 if allow_adv else 7))
    s = int(g.integers(0, 2 ** 31))
    if r < 4:
        return "Generator", numpy.random.Generator(numpy.random.PCG64(s))
    if r < 6:
        return "RandomState", numpy.random.RandomState(s)
    if r < 7:
        from pybrops.core.random import prng
        prng.seed(s)
        return "global", None
    kind = ["zero", "max", "zero"][r - 7]
    # a genuine PCG64 generator in a state whose next double is exactly 0.0 / the largest double < 1
    return "crafted-state-first-draw-%s" % kind, crafted_generator(kind, s)


def guarded(ctx, fnname, icls, coords, call):
    try:
        return True, call()
    except Exception as e:  # affirmative-result property: raising on a valid input is a violation
        ctx.violation("C17.%s.returns" % fnname, fnname, "raised %s" % type(e).__name__, icls,
                      what="%s raised %s: %s" % (fnname, type(e).__name__, str(e)[:120]), witness=coords, coords=coords)
        ctx.ok("C17.%s.returns" % fnname)
        return False, None


def case_sus(ctx, c):
    from pybrops.core.random.sampling import stochastic_universal_sampling as sus
    g = ctx.rng("sus", c)
    mode = int(g.integers(0, 5))
    if mode == 0:
        p = numpy.array(POOLS[int(g.integers(len(POOLS)))], dtype=float); wcls = "pool"
    elif mode == 1:
        n = int(g.integers(1, 12))
        p = g.choice([0, 1, 2, 3, 0.1, 0.3, 0.7, 1e-9, 1e6, float(g.uniform())], n).astype(float); wcls = "mixed"
    elif mode == 2:
        n = int(g.integers(1, 40)); p = g.uniform(0, 1, n) * (g.uniform(0, 1, n) < 0.8); wcls = "uniform+zeros"
    elif mode == 3:
        n = int(g.integers(2, 30)); p = 10.0 ** g.uniform(-12, 12, n); wcls = "magnitudes"
    else:
        n = int(g.integers(1, 16)); p = (g.integers(0, 7, n) * (g.random(n) < 0.7)).astype(float); wcls = "integers+zeros"
    if not p.sum() > 0:
        p[int(g.integers(len(p)))] = 1.0
    g.shuffle(p)
    k = int(g.choice(KS)) if g.random() < 0.7 else int(g.integers(1, 60))
    shp = int(g.integers(0, 4))
    size = k
    if shp == 1:
        size = (k,)
    elif shp == 2:
        f = [d for d in range(1, k + 1) if k % d == 0]; d = int(g.choice(f)); size = (d, k // d)
    elif shp == 3 and k % 2 == 0:
        size = (2, 1, k // 2)
    a = numpy.arange(len(p)) if g.random() < 0.8 else numpy.array(["e%d" % i for i in range(len(p))], dtype=object)
    rname, rng = mkrng(g, c, allow_adv=True)
    if mode == 0 and g.random() < 0.3:  # exactly representable arithmetic: small integer weights, dyadic spacing
        p = g.integers(0, 9, int(g.integers(2, 9))).astype(float); p[0] = max(p[0], 1.0); wcls = "small-integers"
        k = int(p.sum()) * int(g.choice([1, 2, 4])); size = k
        a = numpy.arange(len(p))
    icls = rname if rname.startswith("crafted") else "seeded-rng"
    # weight vectors handed over in other numeric dtypes (integer-valued weights only, so that the cast is exact)
    if wcls in ("pool", "small-integers", "mixed", "integers+zeros") and numpy.all(p == numpy.floor(p)) and p.max() < 200 and g.random() < 0.5:
        dt = str(g.choice(["uint8", "uint16", "uint32", "uint64", "int8", "int16", "int32", "int64", "float32"]))
        p = p.astype(dt); wcls += "/" + ("unsigned" if dt.startswith("u") else "signed" if dt.startswith("i") else dt)
        icls += "/" + ("unsigned integer weights" if dt.startswith("u") else "signed integer weights" if dt.startswith("i") else "float32 weights")
    coords = [c, "sus"]
    ctx.case("sus:%s/%s" % (wcls, icls), p, size, rname, trivial=len(p) < 2)
    ctx.sample({"fn": "sus", "p": p.tolist(), "size": size, "rng": rname}) if c % 97 == 0 else None
    ok, out = guarded(ctx, "sus", icls, coords, lambda: sus(a, p, size, rng))
    if ok:
        strict = rname.endswith("zero") and O.sus_arithmetic_exact(p, k, 0.0)
        O.check_sus(ctx, a, p, size, out, icls, coords, strict=strict)


def case_tiled(ctx, c):
    from pybrops.core.random.sampling import tiled_choice
    g = ctx.rng("tiled", c)
    n = int(g.integers(1, 15))
    rep = g.random() < 0.25
    a = g.integers(0, max(2, n // 2), n) if rep else g.permutation(50)[:n]
    if g.random() < 0.2:
        a = numpy.array(["o%d" % v for v in a], dtype=object)
    elif g.random() < 0.3:     # option arrays of other numeric dtypes (values < 50 fit all of them)
        a = a.astype(str(g.choice(["int8", "uint8", "int16", "uint16", "int32", "uint32", "float32", "float64"])))
    k = int(g.choice(KS[:10])) if g.random() < 0.5 else int(g.integers(1, 4 * n + 3))
    big = c % 40 == 11
    if big:      # option sets around the limits of the narrow integer types; options are their own (large) labels
        n = int(g.choice([127, 128, 129, 255, 256, 257, 32767, 32768, 32769, 40000, 65535, 65536, 70000]))
        a = g.permutation(n) + (0 if g.random() < 0.5 else 100000)
        k = int(g.choice([n - 1, n, n + 1, 2 * n, 2 * n + 3]))
        rep = False
    size = k if g.random() < 0.5 else ((k,) if k % 2 else (2, k // 2))
    rname, rng = mkrng(g, c)
    icls = ("repeated-options" if rep else "distinct-options") + ("/k<n" if k < n else "/k>=n")
    if big:
        icls += "/option count near an integer-type limit"
        ctx.sumnote("tiled: option counts near integer-type limits")
    coords = [c, "tiled"]
    ctx.case("tiled:" + icls, a, size, rname, trivial=n < 2)
    ctx.sample({"fn": "tiled_choice", "a": a.tolist(), "size": size, "rng": rname}) if c % 97 == 0 else None
    pw = None
    if g.random() < 0.35:        # explicit option weights for the incomplete last set (still without replacement)
        pw = g.uniform(0.1, 1.0, n)
        if g.random() < 0.5 and n > 1:
            # options of probability exactly zero: they can never fill the incomplete last set, but every complete set still
            # holds them; enough positive options are kept for the remainder to be drawn without replacement
            rem = k % n
            nz = int(g.integers(1, max(2, n - rem + 1)))
            if n - nz >= max(rem, 1):
                pw[g.permutation(n)[:nz]] = 0.0; icls += "/zero-probability options"
        pw = pw / pw.sum(); icls += "/weighted remainder"
    ok, out = guarded(ctx, "tiled", icls, coords, lambda: tiled_choice(a, size, replace=False, p=pw, rng=rng))
    if ok:
        O.check_tiled(ctx, a, size, out, icls, coords)


def case_tiled_addon(ctx, c):
    """The sibling ``tiled_choice(a, size)`` of the GA operator module (draws loci / alleles for the memetic hill climbers)."""
    from pybrops.opt.algo.pymoo_addon import tiled_choice as tc
    g = ctx.rng("tiled-addon", c)
    a = int(g.integers(1, 12)); k = int(g.integers(0, 4 * a + 3))
    big = c % 25 == 7
    if big:      # option counts around the limits of the 8-, 16-bit (signed and unsigned) integer types: genome-sized operators
        a = int(g.choice([127, 128, 129, 255, 256, 257, 300, 32767, 32768, 32769, 40000, 65535, 65536, 65537, 70000]))
        k = int(g.choice([a - 1, a, a + 1, 2 * a, 2 * a + 3, int(2.5 * a)]))
    rname, rng = mkrng(g, c)
    if rname == "global":
        rng = None
    icls = "operator-module sibling" + ("/k<n" if k < a else "/k>=n") + ("/multiple of n" if k % a == 0 else "")
    if big:
        icls += "/option count near an integer-type limit"
        ctx.sumnote("tiled (operator module): option counts near integer-type limits")
    coords = [c, "tiled-addon"]
    ctx.case("tiled-addon:" + icls, a, k, rname, trivial=a < 2 or k == 0)
    ok, out = guarded(ctx, "tiled", icls, coords, lambda: tc(a, k, random_state=rng))
    if ok:
        O.check_tiled(ctx, numpy.arange(a), k, numpy.asarray(out), icls, coords, site="pymoo_addon.tiled_choice")


def case_axis(ctx, c):
    from pybrops.core.random.sampling import axis_shuffle
    g = ctx.rng("axis", c)
    nd = int(g.integers(2, 5))  # the axes held fixed must leave at least one axis to shuffle along
    shape = tuple(int(x) for x in g.integers(1, 6, nd))
    arr = g.permutation(int(numpy.prod(shape))).reshape(shape).astype(g.choice(["int64", "float64", "int8"]))
    if g.random() < 0.3:
        arr = (arr % 3).astype(arr.dtype)  # heavy ties
    naxes = int(g.integers(1, nd))
    axes = tuple(int(x) for x in g.choice(nd, naxes, replace=False))      # in the order drawn: tuples need not be sorted
    axarg = axes[0] if len(axes) == 1 and g.random() < 0.5 else axes
    rname, rng = mkrng(g, c)
    icls = "%dD/%d axes" % (nd, len(axes))
    coords = [c, "axis"]
    ctx.case("axis:" + icls, arr, axes, rname, trivial=arr.size < 2)
    ctx.sample({"fn": "axis_shuffle", "shape": shape, "axis": axarg, "rng": rname}) if c % 97 == 0 else None
    before = arr.copy()
    ok, _ = guarded(ctx, "axis", icls, coords, lambda: axis_shuffle(arr, axarg, rng))
    if ok:
        nsl = O.check_axis_shuffle(ctx, before, arr, axes, icls, coords)
        ctx.sumnote("axis slices checked", nsl)
        if not numpy.array_equal(before, arr):
            ctx.sumnote("axis shuffles that moved something")


def case_outcross(ctx, c):
    from pybrops.core.random.sampling import outcross_shuffle
    g = ctx.rng("outcross", c)
    ncross = int(g.integers(1, 13)); npar = int(g.integers(1, 5))
    mode = int(g.integers(0, 6)); mode = min(mode, 4)
    if mode == 0:      # tiled set (what the configurations produce)
        pool = g.permutation(30)[: int(g.integers(1, 9))]
        x = numpy.resize(pool, ncross * npar)
    elif mode == 1:    # heavy repeats
        x = g.integers(0, max(1, npar), ncross * npar)
    elif mode == 2:    # one dominant individual
        x = g.integers(0, 8, ncross * npar); x[g.random(x.size) < 0.6] = 0
    elif mode == 3:
        x = g.integers(0, 20, ncross * npar)
    else:              # few individuals, many crosses: repeats cannot all be removed, plateaus of equal-score exchanges
        x = g.integers(0, int(g.integers(2, 5)), ncross * npar)
    x = numpy.sort(x) if g.random() < 0.5 else x
    # every integer index dtype and every memory layout is a cross table: the shuffle works in place, so a table that is
    # converted or flattened into a private copy is returned untouched
    dt = "int64" if g.random() < 0.5 else str(g.choice(["int32", "int16", "int8", "uint8", "uint16", "uint32", "uint64", "intp"]))
    x = x.reshape(ncross, npar).astype(dt)
    lay = int(g.integers(0, 10))
    layout = "C-contiguous"
    if lay == 7:
        x = numpy.asfortranarray(x); layout = "Fortran order"
    elif lay == 8:      # columns of a wider table
        wide = numpy.full((ncross, npar + 2), 99, dtype=dt); wide[:, 1:npar + 1] = x; x = wide[:, 1:npar + 1]; layout = "strided view"
    elif lay == 9:      # every other row of a longer table
        tall = numpy.full((2 * ncross, npar), 99, dtype=dt); tall[::2] = x; x = tall[::2]; layout = "strided view"
    rname, rng = mkrng(g, c)
    d0 = O.dupcount(x)
    icls = ["tiled", "heavy-repeats", "dominant", "sparse", "few-individuals"][mode] + ("/selfs-present" if d0 else "/no-selfs")
    if dt != "int64":
        icls += "/narrow or unsigned index dtype"
    if layout != "C-contiguous":
        icls += "/" + layout
    ctx.sumnote("outcross tables: %s" % layout)
    ctx.sumnote("outcross tables: dtype %s" % dt)
    coords = [c, "outcross"]
    ctx.case("outcross:" + icls, x, rname, trivial=d0 == 0)
    ctx.sample({"fn": "outcross_shuffle", "xconfig": x.tolist(), "rng": rname}) if c % 97 == 0 else None
    before = x.copy()
    ok, _ = guarded(ctx, "outcross", icls, coords, lambda: outcross_shuffle(x, rng))
    if ok:
        ctx.check("C17.outcross.multiset", x.dtype == before.dtype, "outcross_shuffle", "table keeps its dtype", icls,
                  witness={"before": str(before.dtype), "after": str(x.dtype)}, coords=coords)
        d0, d1 = O.check_outcross(ctx, before, x, icls, coords)
        ctx.sumnote("outcross repeats removed", d0 - d1)


FAMILIES = {"sus": (case_sus, 12000, 400000), "tiled": (case_tiled, 4000, 100000), "tiled-addon": (case_tiled_addon, 1500, 40000),
            "axis": (case_axis, 3000, 60000), "outcross": (case_outcross, 9000, 120000)}


def run_shard(ctx):
    for name, (fn, q, t) in FAMILIES.items():
        for c in ctx.case_ids(q, t):
            fn(ctx, c)


def replay(ctx, coords):
    FAMILIES[coords[1]][0](ctx, int(coords[0]))
