"""C14 - phenotyping and breeding-value estimation preserve truth and alignment."""
import numpy

from pbmon import boot  # noqa: F401
from pbmon import stats as ST
from pbmon.oracle import fieldtrial as FT

PROPERTY = "C14"
NSHARDS = {"quick": 4, "thorough": 16}
CLAUSES = {
    "C14.records": 10000, "C14.truth": 1500, "C14.h2": 2000,
    "C14.means": 1000, "C14.invariance": 1500, "C14.alignment": 4000, "C14.truebv": 2000,
    "C14.variance": 100, "C14.constancy": 4000, "C14.independence": 4000,
}
HOOKS_REQUIRED = ["G_E_Phenotyping.phenotype calls", "TruePhenotyping.phenotype calls",
                  "MeanPhenotypicBreedingValue.estimate calls", "TrueBreedingValue.estimate calls", "set_h2/set_H2 calls",
                  "truth judged on a structured effect architecture", "truth judged on sparse effects cancelling across traits",
                  "truth judged on > 127 markers"]
RULE = ("flow cases: population (1-30 taxa, 1-24 markers or - a quarter of the cases - 25-300 markers incl. 127/128/129/256, ploidy 1/2/4, taxon names deliberately unsorted: mixed-case strings, "
        "numeric strings, integer objects, or absent; groups present/absent/taxa-grouped) x genomic model (additive q=1, additive q>1, "
        "additive+dominance, rrBLUPModel0; 1-3 traits, labels present/absent, large intercept or intercept exactly 0 on some traits; additive and dominance effects each "
        "drawn as an architecture: markers carrying an effect (all / cells zeroed at random / half / sparse QTL among many markers / single QTL / none) x relation "
        "across traits (independent / summing to exactly 0 over the traits on some or on every marker - trade-off loci - / identical / one trait without effects / "
        "one trait per marker) x magnitudes (normal, dyadic, equal, small integers, one sign, 1e-9..1e3 side by side) x every trait's effects summing to exactly 0 over "
        "the markers or not x memory layout C / Fortran / strided view; the oracle works on independent copies of the parameters) x trial "
        "(1-6 environments, scalar or per-environment replicate counts, variances all-zero / None / scalar / per-trait float64, float32 or integer "
        "vectors with exact zeros on some traits only, per-trait heritability targets with exactly 1.0 on some traits only, "
        "optional session of 1-4 set_h2/set_H2 calls on the one live protocol object (h in (0,1] incl. 1 and 1e-6; the population itself, a "
        "sub-selection of it, new taxa of another size and allele frequency, or 600-4000 taxa stored pool after pool with pool-specific allele frequencies; interleaved with phenotype() and re-assignment of var_err / gpmod; "
        "every call judged for the population passed in that call), rng Generator/RandomState/global) x phenotype-frame variant "
        "(as returned, rows shuffled, index reset, unbalanced after row deletion, renamed + junk columns, trait subset/reversed; trait columns "
        "float64 / float32 / integer scores on all or some traits; NaN cells scattered independently per trait, taxa without any record of one trait; row index default, shuffled, filtered, string, non-unique, reversed, offset) x "
        "1-4 estimate() calls on ONE long-lived MeanPhenotypicBreedingValue object (tables with and without group labels alternating, with / without "
        "genotype matrix, each judged) x "
        "genotype matrix for alignment (None, same, permuted, subset, with never-phenotyped taxa, only unphenotyped, single candidate, parent "
        "lists and cohorts with taxa listed more than once - every occurrence must carry that taxon's mean -, phased or "
        "unphased, own group labels, taxa-grouped); every small trial, and a second trial on the same protocol object after re-assigning "
        "nenv/nrep/variances, is judged trait by trait: zero-variance strata vanish, positive-variance strata carry distinct effects.  "
        "stat cases (half of them ONE large trial, half 300-2500 independent trials of 1-3 environments x 1-2 replicates run on one long-lived "
        "protocol object and pooled with the zero-mean estimator, so marginal - not within-trial - variances are judged; 12 design classes incl. zero on some traits only in var_env / var_rep / var_err and heritability exactly 1 on some traits): "
        "1000-10000 environments x 1-4 replicates x 1-12 taxa, exact "
        "chi-square tests of the error / replicate / environment strata per trait, Bonferroni family-wise alpha 1e-9 over the run, "
        "confirmation stage (independent seed, 4x environments, alpha 1e-6).  Non-trivial: >= 2 taxa and >= 2 records per taxon; "
        "distinct = digest of population, model, trial design and variant.")
ASSUME = ["true genotypic value = intercept + dosage.u_a (+ heterozygous.u_d); intercept = beta[0] for one fixed effect, "
          "the contrast [1,1/q,..,1/q].beta for q > 1 (pinned reading shared with C04)",
          "phenotype frames carry the labels in columns named taxa, taxa_grp, env, rep and one column per trait named by the "
          "model's trait labels (positional when the model has none); any labelling of environments/replicates is accepted",
          "when the population has no taxon names the generated names are not constrained: records are matched to truth as multisets per cell",
          "genetic variance in the heritability clause = variance of additive (set_h2) / genotypic (set_H2) values over the taxa of the "
          "population supplied; both the population (ddof 0) and the sample (ddof 1) form are accepted",
          "TrueBreedingValue is judged against intercept + dosage.u_a only for purely additive models; with dominance only labels and "
          "taxon-permutation equivariance are judged",
          "a variance argument left None requests zero variance (the constructor's default)",
          "a NaN cell of a phenotype table is an unobserved plot of that trait: each trait's mean is over ITS observed records of the taxon, NaN when it has none",
          "means of float32 trait columns are accepted to 1e-6*scale (they may be averaged and returned in float32); integer columns are exact records",
          "G_E_Phenotyping.phenotype() and MeanPhenotypicBreedingValue.estimate() promise a result for every valid trial / table / cohort "
          "(also a cohort none of whose taxa was phenotyped): raising there is a violation; other calls that raise are counted under 'raised'",
          "a variance bias smaller than the reported minimum detectable ratio is invisible to C14.variance"]

NAME_POOL = ["Zed", "b7", "quark", "Aa", "mu", "C-12", "yam", "B73", "a", "Mo17", "w22", "Oh43", "teo", "Ki3", "x_9", "PHZ51", "il14h",
             "Tx303", "cml52", "NC358", "hp301", "P39", "ms71", "M162W", "tzi8", "KY21", "m37w", "CML247", "ky228", "B97", "oh7b", "Tzi9"]
TRAIT_POOL = ["yield", "ht", "dtf", "Oil", "zn", "A1"]


# ---------------------------------------------------------------- generators
def gen_names(g, n):
    kind = ["mixed-case strings", "mixed-case strings", "numeric strings", "integer objects", "absent"][int(g.integers(5))]
    if kind == "mixed-case strings":
        names = [NAME_POOL[i] for i in g.permutation(len(NAME_POOL))[:n]]
    elif kind == "numeric strings":      # string order != numeric order
        names = [str(v) for v in g.permutation(numpy.r_[numpy.arange(1, 13), numpy.arange(95, 125)])[:n]]
    elif kind == "integer objects":
        names = [int(v) for v in g.permutation(200)[:n]]
    else:
        return kind, None
    return kind, numpy.array(names, dtype=object)


def gen_population(g):
    from pybrops.popgen.gmat.DensePhasedGenotypeMatrix import DensePhasedGenotypeMatrix
    n = int(g.choice([1, 2, 3, 5, 8, 13, 30])) if g.random() < 0.4 else int(g.integers(1, 31))
    p = int(g.integers(1, 25)) if g.random() < 0.75 else int(g.choice([32, 60, 127, 128, 129, 200, 256, 300, int(g.integers(25, 301))]))
    ploidy = int(g.choice([2, 2, 2, 2, 1, 4]))
    raw = g.integers(0, 2, (ploidy, n, p)).astype("int8")
    if g.random() < 0.3:
        raw[:, :, g.random(p) < 0.3] = int(g.integers(0, 2))     # fixed loci
    mono = g.random() < 0.04
    if mono:
        raw[:] = raw[:, :1, :]                                    # all taxa identical: zero genetic variance
    nkind, taxa = gen_names(g, n)
    gkind = ["groups", "groups", "absent", "single group"][int(g.integers(4))]
    grp = None if gkind == "absent" else (g.integers(0, 4, n).astype("int64") if gkind == "groups" else numpy.full(n, 7, dtype="int64"))
    pg = DensePhasedGenotypeMatrix(raw, taxa=taxa, taxa_grp=grp, vrnt_chrgrp=numpy.ones(p, dtype="int64"),
                                   vrnt_phypos=numpy.arange(1, p + 1, dtype="int64"))
    grouped = False
    if grp is not None and taxa is not None and g.random() < 0.3:
        pg.group_taxa(); grouped = True
    return pg, dict(names=nkind, groups=gkind + ("/taxa-grouped" if grouped else ""), ploidy=ploidy, mono=mono)


def dyadic(g, shape, sd):
    """Non-zero effects that are multiples of 1/8: sums and differences of a few of them are exact in floating point."""
    v = numpy.rint(g.normal(0, 8 * sd, shape))
    v[v == 0] = 3.0
    return v / 8.0


def gen_effects(g, p, nt, sd, stat=False):
    """(p, nt) marker effects with an explicit architecture: which markers carry an effect at all x how the effects of one marker
    relate across traits x their magnitudes x memory layout.  Returns (array handed to the model, independent copy, class dict)."""
    spars = ["dense", "dense", "cells zeroed at random", "cells zeroed at random", "half of the markers", "sparse QTL", "sparse QTL",
             "sparse QTL", "single QTL", "no effects"][int(g.integers(10))]
    if stat and spars == "no effects":
        spars = "sparse QTL"
    if spars in ("dense", "cells zeroed at random"):
        rows = numpy.arange(p)
    elif spars == "half of the markers":
        rows = numpy.flatnonzero(g.random(p) < 0.5)
    elif spars == "sparse QTL":      # few QTL among many markers
        rows = numpy.sort(g.permutation(p)[: int(g.integers(1, max(2, p // 4 + 1)))])
    elif spars == "single QTL":
        rows = g.permutation(p)[:1]
    else:
        rows = numpy.arange(0)
    k = len(rows)
    mag = ["normal", "normal", "normal", "dyadic", "equal magnitudes", "small integers", "one sign", "tiny beside large"][int(g.integers(6 if stat else 8))]
    if mag == "normal":
        e = g.normal(0, sd, (k, nt))
    elif mag == "dyadic":
        e = dyadic(g, (k, nt), sd)
    elif mag == "equal magnitudes":
        e = float(g.choice([0.5, 1.0, 2.0])) * g.choice([-1.0, 1.0], (k, nt))
    elif mag == "small integers":      # includes exact zeros
        e = g.integers(-3, 4, (k, nt)).astype(float)
    elif mag == "one sign":
        e = numpy.abs(g.normal(0, sd, (k, nt))) * float(g.choice([-1.0, 1.0]))
    else:
        e = g.normal(0, sd, (k, nt)) * 10.0 ** g.choice([-9.0, -6.0, -3.0, 0.0, 0.0, 3.0], (k, 1))
    if spars == "cells zeroed at random":
        e = e * (g.random((k, nt)) < 0.75)
    plei = "independent"
    if k and nt > 1:
        plei = ["independent", "independent", "cancelling across traits on some markers", "cancelling across traits on some markers",
                "cancelling across traits on every marker", "identical across traits", "one trait without effects",
                "one trait only per marker"][int(g.integers(8))]
        if plei.startswith("cancelling"):      # trade-off loci: the effects of one marker sum to exactly 0 over the traits
            sel = numpy.arange(k) if plei.endswith("every marker") else g.permutation(k)[: int(g.integers(1, k + 1))]
            for i in sel:
                a = dyadic(g, nt, sd)
                if nt == 2 or g.random() < 0.5:      # +a on one trait, -a on another
                    j0, j1 = g.permutation(nt)[:2]
                    v = numpy.zeros(nt); v[j0], v[j1] = a[0], -a[0]
                else:                                  # a, b, -(a + b)
                    v = a.copy(); v[-1] = -v[:-1].sum(); v = v[g.permutation(nt)]
                e[i] = v
        elif plei == "identical across traits":
            e[:] = e[:, :1]
        elif plei == "one trait without effects":
            e[:, int(g.integers(nt))] = 0.0
        else:
            keep = g.integers(0, nt, k)
            e = e * (numpy.arange(nt)[None, :] == keep[:, None])
    bal = bool(k >= 2 and g.random() < 0.12)
    if bal:      # effects balanced over the markers: every trait's effects sum to exactly 0
        e = numpy.rint(e * 8.0) / 8.0
        e[-1] = -e[:-1].sum(0)
    u = numpy.zeros((p, nt))
    u[rows] = e
    lay = ["C", "C", "C", "C", "Fortran", "strided view"][int(g.integers(6))]
    if lay == "Fortran":
        arg = numpy.asfortranarray(u)
    elif lay == "strided view":
        big = numpy.full((2 * p, nt + 1), 77.0); big[::2, :nt] = u
        arg = big[::2, :nt]
    else:
        arg = u.copy()
    return arg, u, dict(markers=spars, traits=plei, magnitude=mag, balanced=bal, layout=lay)


def gen_model(g, p, stat=False, nt=None):
    from pybrops.model.gmod.DenseAdditiveLinearGenomicModel import DenseAdditiveLinearGenomicModel
    from pybrops.model.gmod.DenseAdditiveDominanceLinearGenomicModel import DenseAdditiveDominanceLinearGenomicModel
    from pybrops.model.gmod.rrBLUPModel0 import rrBLUPModel0
    kind = ["additive q=1", "additive q=1", "additive q>1", "additive+dominance", "additive+dominance", "rrBLUPModel0"][int(g.integers(6))]
    nt = int(g.integers(1, 4)) if nt is None else nt
    q = int(g.integers(2, 4)) if kind == "additive q>1" else 1
    beta = g.normal(0, 5, (q, nt))
    big = (not stat) and g.random() < 0.15
    if big:
        beta[0] += 1e4 * g.choice([-1.0, 1.0], nt)
    elif g.random() < 0.1:
        beta[:, g.random(nt) < 0.6] = 0.0                      # intercept exactly zero on some traits
    ua_arg, u_a, arch = gen_effects(g, p, nt, 1.0, stat)
    ud_arg, u_d, arch_d = gen_effects(g, p, nt, 0.7, stat) if kind == "additive+dominance" else (None, None, None)
    trait = None if g.random() < 0.15 else numpy.array([TRAIT_POOL[i] for i in g.permutation(len(TRAIT_POOL))[:nt]], dtype=object)
    beta_arg = beta.copy()
    if kind == "additive+dominance":
        mod = DenseAdditiveDominanceLinearGenomicModel(beta=beta_arg, u_misc=None, u_a=ua_arg, u_d=ud_arg, trait=trait)
    elif kind == "rrBLUPModel0":
        mod = rrBLUPModel0(beta=beta_arg, u_misc=None, u_a=ua_arg, trait=trait)
    else:
        mod = DenseAdditiveLinearGenomicModel(beta=beta_arg, u_misc=None, u_a=ua_arg, trait=trait)
    # the oracle works on independent copies of the parameters (beta, u_a, u_d), never on the arrays the model holds
    return mod, dict(kind=kind, nt=nt, beta=beta, u_a=u_a, u_d=u_d, trait=trait, big=big, arch=arch, arch_d=arch_d)


def gen_rng(g):
    r = int(g.integers(0, 6)); s = int(g.integers(0, 2 ** 31))
    if r < 3:
        return "Generator", numpy.random.Generator(numpy.random.PCG64(s))
    if r < 5:
        return "RandomState", numpy.random.RandomState(s)
    from pybrops.core.random import prng
    prng.seed(s)
    return "global", None


def gen_variances(g, nt, cls):
    def one():
        m = int(g.integers(4))
        if m == 0:
            return None if g.random() < 0.5 else 0.0
        if m == 1:
            return float(g.choice([0.25, 1.0, 9.0, 100.0]))
        v = g.choice([0.0, 0.04, 1.0, 2.5, 16.0], nt).astype(float)
        if nt > 1 and g.random() < 0.4:      # exact zeros on some traits only
            v = g.choice([0.04, 1.0, 2.5, 16.0], nt).astype(float); v[g.permutation(nt)[: int(g.integers(1, nt))]] = 0.0
        if m == 2:
            return v
        r = g.random()
        if r < 0.3:
            return v.astype("float32")
        if r < 0.55:                          # integer dtype, e.g. var_err = numpy.array([2, 0, 9])
            return numpy.ceil(v).astype(g.choice(["int64", "int32"]))
        return v
    if cls == "all-zero":
        return tuple((None if g.random() < 0.3 else (0.0 if g.random() < 0.6 else numpy.zeros(nt))) for _ in range(3))
    return one(), one(), one()


def as_vec(v, nt):
    if v is None:
        return numpy.zeros(nt)
    return numpy.full(nt, float(v)) if numpy.ndim(v) == 0 else numpy.asarray(v, dtype=float)


# ---------------------------------------------------------------- frame helpers
def trait_columns(df, M):
    """Names of the trait columns of a phenotype frame (by the model's labels, else positional)."""
    if M["trait"] is not None:
        return [str(t) for t in M["trait"]]
    return [c for c in df.columns if c not in ("taxa", "taxa_grp", "env", "rep")]


def key_of(x):
    """Hashable python key of a label (numpy scalars -> python)."""
    return x.item() if isinstance(x, numpy.generic) else x


def frame_labels(df, col):
    return [key_of(x) for x in df[col].tolist()]


def judge_frame(ctx, df, pg, M, truth, scale, nenv, nrep, site, icls, coords, zero=None, has_cells=True):
    """C14.records (+ C14.truth for the traits whose three variances are all zero) on one returned frame."""
    n = pg.ntaxa
    cols = list(df.columns)
    need = ["taxa"] + (["env", "rep"] if has_cells else []) + (["taxa_grp"] if pg.taxa_grp is not None else [])
    tcols = trait_columns(df, M)
    okc = all(c in cols for c in need) and all(c in cols for c in tcols) and len(tcols) == M["nt"]
    ctx.check("C14.records", okc, site, "frame has taxa/env/rep (and group) columns and one column per trait", icls,
              witness={"columns": cols, "needed": need + tcols}, coords=coords)
    if not okc:
        return None
    labels = frame_labels(df, "taxa")
    env = df["env"].tolist() if has_cells else None
    rep = df["rep"].tolist() if has_cells else None
    rr = FT.records_report(labels, env, rep, n, nrep)
    good = True
    for rel, ok in rr.items():
        good &= ctx.check("C14.records", ok, site, rel, icls,
                          witness={"ntaxa": n, "nenv": nenv, "nrep": nrep, "rows": len(df), "head": df.head(8).to_dict("list")}, coords=coords)
    vals = df[tcols].to_numpy(dtype=float)
    if pg.taxa is not None:
        index = {key_of(t): i for i, t in enumerate(pg.taxa)}
        known = all(k in index for k in labels)
        ctx.check("C14.records", known, site, "every record's taxon label is a taxon of the population", icls,
                  witness={"labels": labels[:20], "taxa": pg.taxa}, coords=coords)
        if not known:
            return None
        ix = numpy.array([index[k] for k in labels], dtype=int)
        if pg.taxa_grp is not None:
            got = numpy.asarray(df["taxa_grp"].to_numpy())
            try:
                okg = bool(numpy.all(got.astype("int64") == numpy.asarray(pg.taxa_grp)[ix])) and not bool(df["taxa_grp"].isna().any())
            except Exception:
                okg = False
            ctx.check("C14.records", okg, site, "record's group label is its taxon's group", icls,
                      witness={"taxa": labels[:20], "got": got[:20], "expected": numpy.asarray(pg.taxa_grp)[ix][:20]}, coords=coords)
    else:
        ix = None
    if not good:
        return None
    if zero is not None and zero.any():
        tl = numpy.array([FT.tol(s) for s in scale])
        if ix is not None:
            err = numpy.abs(vals - truth[ix])
        else:   # unnamed taxa: compare as multisets inside every cell
            err = numpy.zeros_like(vals)
            cell = list(zip(env, rep)) if has_cells else [0] * len(labels)
            for cidx in set(cell):
                rows = numpy.array([i for i, cc in enumerate(cell) if cc == cidx])
                for j in range(vals.shape[1]):
                    err[rows, j] = numpy.abs(numpy.sort(vals[rows, j]) - numpy.sort(truth[:, j]))
        bad = (err > tl[None, :]) | ~numpy.isfinite(vals)
        bad = bad[:, zero]
        A = M.get("arch")
        if A is not None:
            ctx.hook("truth judged on a structured effect architecture", int(A["markers"] not in ("dense", "cells zeroed at random") or A["traits"] != "independent"))
            ctx.hook("truth judged on sparse effects cancelling across traits", int(A["markers"] in ("sparse QTL", "single QTL") and A["traits"].startswith("cancelling")))
            ctx.hook("truth judged on > 127 markers", int(numpy.shape(M["u_a"])[0] > 127))
        ctx.maxnote("truth: worst |record - true value| / tolerance", float((err / tl[None, :])[:, zero].max()) if err.size else 0.0)
        ctx.check("C14.truth", not bad.any(), site, "record == taxon's true genotypic value when the trait's variances are zero", icls,
                  what="%s: %d of %d zero-noise records differ from the true genotypic value (max err %.3g; %s model, %d markers, additive effects: %s)"
                  % (site, int(bad.any(1).sum()), len(vals), float(err[:, zero].max()), M["kind"], numpy.shape(M["u_a"])[0], M.get("arch")),
                  witness={"model": M["kind"], "effect architecture": M.get("arch"), "dominance architecture": M.get("arch_d"), "beta": M["beta"], "u_a": M["u_a"], "u_d": M["u_d"], "raw": pg.mat, "taxa": pg.taxa,
                           "records": df.head(12).to_dict("list"), "truth": truth}, coords=coords)
    return ix


def cells_of(df):
    """Integer cell index of every record and the environment index of every (environment, replicate) cell."""
    env = df["env"].to_numpy(); rep = df["rep"].to_numpy()
    ekeys, einv = numpy.unique(env, return_inverse=True)
    ckeys, cinv = numpy.unique(numpy.stack([numpy.asarray(einv).ravel(), rep], axis=1), axis=0, return_inverse=True)
    return numpy.asarray(cinv).ravel(), ckeys[:, 0].astype(int)


REL_CONST = {"error": "records of one (environment, replicate) cell differ from truth by one common effect",
             "replicate": "cells of one environment share one effect when replicate and error variance are zero",
             "environment": "no effect at all when all variances are zero"}
REL_INDEP = {"error": "every record has its own error effect", "replicate": "every (environment, replicate) has its own effect",
             "environment": "every environment has its own effect"}


def judge_structure(ctx, df, ix, truth, tcols, n, var_env, var_rep, var_err, site, icls, coords, wit):
    """Trait by trait, on ONE (small) trial: a stratum whose requested variance is zero must vanish exactly (C14.constancy) and a
    stratum whose requested variance is positive must consist of pairwise distinct effects (C14.independence) - whatever the other
    traits' variances are."""
    vals = df[tcols].to_numpy(dtype=float)
    resid = vals - truth[ix]
    cinv, env_of_cell = cells_of(df)
    within, cm, em, ecnt = FT.decompose(resid, cinv, env_of_cell)
    cdev = cm - em[env_of_cell]
    multi = ecnt[env_of_cell] >= 2
    for j in range(vals.shape[1]):
        colscale = max(1.0, float(numpy.abs(vals[:, j]).max()))
        vr = float(var_rep[j]) + float(var_err[j]) / n
        q = 64 * numpy.finfo(float).eps * colscale
        for name, arr, sigma2 in (("error", within[:, j], float(var_err[j])), ("replicate", cdev[:, j], vr), ("environment", em[:, j], float(var_env[j]) + vr)):
            w = dict(wit, stratum=name, trait=j, requested={"var_env": var_env, "var_rep": var_rep, "var_err": var_err})
            if sigma2 <= 0.0:
                maxabs = float(numpy.abs(arr).max()) if len(arr) else 0.0
                ctx.check("C14.constancy", maxabs <= 10 * FT.tol(colscale), site, REL_CONST[name], icls,
                          what="%s stratum of trait %d should vanish (requested variance 0) but reaches %.3g" % (name, j, maxabs),
                          witness=dict(w, max_abs_deviation=maxabs), coords=coords)
                continue
            if name == "error":
                eff = arr if n >= 2 else arr[:0]
            elif name == "replicate":
                eff = arr[multi]
            else:
                eff = arr
            if len(eff) == 1 and name == "environment":
                # a single-environment trial: its one effect is a draw from a continuous distribution, not 0
                if sigma2 ** 0.5 >= 1e9 * q:
                    ctx.check("C14.independence", abs(float(eff[0])) > q, site, REL_INDEP[name], icls,
                              what="single-environment trial, trait %d (requested stratum variance %.4g): the environment's effect is exactly 0" % (j, sigma2),
                              witness=dict(w, effect=float(eff[0])), coords=coords)
                continue
            if len(eff) < 2:
                continue
            if sigma2 ** 0.5 < 1e4 * q:
                ctx.sumnote("independence: strata whose noise is below the resolution of the values (not judged)")
                continue
            nd = len(numpy.unique(numpy.rint(eff / q)))
            ctx.check("C14.independence", nd >= int(numpy.ceil(0.75 * len(eff))), site, REL_INDEP[name], icls,
                      what="%s stratum of trait %d (requested variance %.4g): only %d distinct effects among %d" % (name, j, sigma2, nd, len(eff)),
                      witness=dict(w, distinct=nd, of=len(eff), head=eff[:12]), coords=coords)


# ---------------------------------------------------------------- flow family
def variant_of(g, df, tcols, has_grp):
    """Hostile but equivalent re-arrangements of a phenotype frame.  Returns (name, frame, taxa_col, grp_col, trait_cols)."""
    v = ["as returned", "rows shuffled", "shuffled+reset index", "unbalanced", "renamed+junk columns", "trait subset/reversed"][int(g.integers(6))]
    tc, gc, tr = "taxa", ("taxa_grp" if has_grp else None), list(tcols)
    if v == "rows shuffled":
        df = df.iloc[g.permutation(len(df))]
    elif v == "shuffled+reset index":
        df = df.iloc[g.permutation(len(df))].reset_index(drop=True)
    elif v == "unbalanced":
        keep = g.random(len(df)) < float(g.choice([0.5, 0.8]))
        if not keep.any():
            keep[int(g.integers(len(df)))] = True
        df = df[keep]
        if g.random() < 0.5:
            df = df.iloc[g.permutation(len(df))]
    elif v == "renamed+junk columns":
        df = df.rename(columns={"taxa": "line", "taxa_grp": "pool"}).copy()
        df["junk"] = g.normal(size=len(df)); df["plot"] = numpy.arange(len(df))[::-1]
        df = df[[df.columns[i] for i in g.permutation(len(df.columns))]]
        tc, gc = "line", ("pool" if has_grp else None)
    elif v == "trait subset/reversed":
        tr = tr[::-1]
        if len(tr) > 1 and g.random() < 0.5:
            tr = tr[: int(g.integers(1, len(tr)))]
    if has_grp and g.random() < 0.25:
        gc = None                                         # the user may choose not to name a group column
    return v, df, tc, gc, tr


def gen_gtobj(g, pg, phen_labels):
    """Genotype matrix to align to.  Returns (class name, gtobj or None)."""
    from pybrops.popgen.gmat.DensePhasedGenotypeMatrix import DensePhasedGenotypeMatrix
    from pybrops.popgen.gmat.DenseGenotypeMatrix import DenseGenotypeMatrix
    if pg.taxa is None:
        return "no genotype matrix", None
    k = ["no genotype matrix", "same matrix", "permuted", "permuted subset", "with unphenotyped taxa", "with unphenotyped taxa",
         "only unphenotyped taxa", "only unphenotyped taxa", "single candidate", "parent list with repeats"][int(g.integers(10))]
    if k == "no genotype matrix":
        return k, None
    if k == "same matrix":
        return k, pg
    if k == "parent list with repeats":      # e.g. pgmat.select_taxa([2, 0, 7, 2, 5, 0]): every occurrence is a row of its own
        return k, pg.select_taxa(g.integers(0, pg.ntaxa, int(g.integers(2, 9))))
    own = [key_of(t) for t in pg.taxa]
    isint = isinstance(own[0], int)
    if k == "single candidate":       # one taxon: a phenotyped one or a new one
        lab = [own[int(g.integers(len(own)))]] if g.random() < 0.5 else ([1000 + int(g.integers(50))] if isint else ["new%02d" % int(g.integers(50))])
    elif k == "permuted":
        lab = [own[i] for i in g.permutation(len(own))]
    elif k == "permuted subset":
        lab = [own[i] for i in g.permutation(len(own))[: int(g.integers(1, len(own) + 1))]]
    else:
        nx = int(g.integers(1, 5))
        extra = [int(1000 + i) for i in g.permutation(50)[:nx]] if isint else ["new%02d" % i for i in g.permutation(50)[:nx]]
        base = [] if k == "only unphenotyped taxa" else [own[i] for i in g.permutation(len(own))[: int(g.integers(1, len(own) + 1))]]
        lab = base + extra
        lab = [lab[i] for i in g.permutation(len(lab))]
    if k != "single candidate" and g.random() < 0.3:      # some taxa (phenotyped or not) listed more than once
        lab = lab + [lab[int(i)] for i in g.integers(0, len(lab), int(g.integers(1, 4)))]
        lab = [lab[i] for i in g.permutation(len(lab))]
        k += " + repeated taxa"
    m = len(lab)
    grp = None if g.random() < 0.25 else g.integers(10, 14, m).astype("int64")        # the matrix' own groups (differ from the frame's)
    taxa = numpy.array(lab, dtype=object)
    if g.random() < 0.5:
        gt = DenseGenotypeMatrix(g.integers(0, 3, (m, 3)).astype("int8"), taxa=taxa, taxa_grp=grp,
                                 vrnt_chrgrp=numpy.ones(3, dtype="int64"), vrnt_phypos=numpy.arange(1, 4, dtype="int64"), ploidy=2)
        k += "/unphased"
    else:
        gt = DensePhasedGenotypeMatrix(g.integers(0, 2, (2, m, 3)).astype("int8"), taxa=taxa, taxa_grp=grp,
                                       vrnt_chrgrp=numpy.ones(3, dtype="int64"), vrnt_phypos=numpy.arange(1, 4, dtype="int64"))
    if grp is not None and g.random() < 0.4:
        gt.group_taxa()
    return k, gt


def same_labels(a, b):
    if a is None or b is None:
        return a is None and b is None
    a = numpy.asarray(a); b = numpy.asarray(b)
    return a.shape == b.shape and [key_of(x) for x in a.tolist()] == [key_of(x) for x in b.tolist()]


def judge_estimate(ctx, bv, gt, means, fgroups, tr, colscale, icls, gcls, coords, wit):
    """C14.means + C14.alignment on one BreedingValueMatrix returned by MeanPhenotypicBreedingValue.estimate."""
    site = "MeanPhenotypicBreedingValue.estimate"
    mat = numpy.asarray(bv.unscale(), dtype=float)
    btaxa = None if bv.taxa is None else [key_of(t) for t in bv.taxa]
    tl = numpy.array([FT.tol(s) for s in colscale])
    ok_shape = btaxa is not None and mat.ndim == 2 and mat.shape == (len(btaxa), len(tr))
    if gt is not None:
        ctx.check("C14.alignment", ok_shape and same_labels(bv.taxa, gt.taxa), site, "row i carries the label of the genotype matrix' taxon i", gcls,
                  witness=dict(wit, got_taxa=bv.taxa, gtobj_taxa=gt.taxa), coords=coords)
        ctx.check("C14.alignment", same_labels(bv.taxa_grp, gt.taxa_grp), site, "group labels are the genotype matrix' groups", gcls,
                  witness=dict(wit, got=bv.taxa_grp, expected=gt.taxa_grp), coords=coords)
        meta = all(same_labels(getattr(bv, f), getattr(gt, f)) for f in ("taxa_grp_name", "taxa_grp_stix", "taxa_grp_spix", "taxa_grp_len"))
        ctx.check("C14.alignment", meta, site, "group metadata is the genotype matrix' metadata", gcls,
                  witness=dict(wit, got=[getattr(bv, f) for f in ("taxa_grp_name", "taxa_grp_stix", "taxa_grp_spix", "taxa_grp_len")]), coords=coords)
        want = [key_of(t) for t in gt.taxa]
    else:
        # no order is prescribed: every phenotyped taxon must be reported once, each row under its own label
        want = sorted(means, key=repr)
        have = {} if btaxa is None else {t: i for i, t in enumerate(btaxa)}
        ctx.check("C14.alignment", btaxa is not None and len(btaxa) == len(set(btaxa)) and set(btaxa) <= set(means), site,
                  "reported taxa are distinct phenotyped taxa", gcls, witness=dict(wit, got_taxa=bv.taxa, phenotyped=want), coords=coords)
        if fgroups is not None and btaxa is not None:
            try:
                okg = bv.taxa_grp is not None and all(int(bv.taxa_grp[i]) == int(fgroups[t]) for t, i in have.items() if t in fgroups)
            except Exception:
                okg = False
            ctx.check("C14.alignment", okg, site, "group label is the taxon's group in the frame", gcls,
                      witness=dict(wit, got_taxa=bv.taxa, got_grp=bv.taxa_grp, frame_groups=[[k, int(v)] for k, v in fgroups.items()]), coords=coords)
    ctx.check("C14.alignment", same_labels(bv.trait, numpy.array(tr, dtype=object)), site, "trait labels are the requested trait columns", gcls,
              witness=dict(wit, got=bv.trait, expected=tr), coords=coords)
    if not ok_shape:
        ctx.check("C14.means", False, site, "value == arithmetic mean of the taxon's records", icls,
                  what="estimate returned a matrix of shape %s for %d taxa x %d traits" % (mat.shape, -1 if btaxa is None else len(btaxa), len(tr)),
                  witness=wit, coords=coords)
        return None
    rows = {}
    if gt is not None:
        rows = {i: t for i, t in enumerate(want)}
    else:
        rows = {i: t for i, t in enumerate(btaxa)}
    exp = numpy.full(mat.shape, numpy.nan)
    for i, t in rows.items():
        if t in means:
            exp[i] = means[t][0]
    phen = numpy.array([rows[i] in means for i in range(len(rows))], dtype=bool)      # the taxon has records (some cells may be unobserved)
    # unphenotyped taxa are reported as missing
    if gt is not None and (~phen).any():
        ctx.check("C14.alignment", bool(numpy.isnan(mat[~phen]).all()), site, "unphenotyped taxon reported as missing (NaN)", gcls,
                  witness=dict(wit, got=mat, expected=exp), coords=coords)
    err = numpy.abs(mat - exp)
    unobs = numpy.isnan(exp) & phen[:, None]     # the taxon has records but none observed for this trait
    if unobs.any():
        ctx.check("C14.means", bool(numpy.isnan(mat[unobs]).all()), site, "missing (NaN) when the taxon has no observed record of that trait", icls,
                  what="%s: %d taxon x trait cells without any observed record were given a value (e.g. %r)"
                  % (site, int((~numpy.isnan(mat[unobs])).sum()), mat[unobs][~numpy.isnan(mat[unobs])][:3].tolist()),
                  witness=dict(wit, got_taxa=bv.taxa, got=mat, expected=exp), coords=coords)
    bad = ~(err <= tl[None, :])          # NaN where a mean is expected counts as wrong
    bad[~phen] = False
    bad[unobs] = False
    missing_rows = 0
    if gt is None:
        missing_rows = len(set(means) - set(btaxa))
    if phen.any():
        with numpy.errstate(invalid="ignore"):
            w = numpy.nanmax(numpy.where(phen[:, None], err / tl[None, :], 0.0)) if mat.size else 0.0
        if w == w:
            ctx.maxnote("means: worst |estimate - mean| / tolerance", float(w))
    if phen.any() or missing_rows:
        ctx.check("C14.means", not bad.any() and missing_rows == 0, site, "value == arithmetic mean of the taxon's records", icls,
                  what="%s: %d of %d phenotyped taxa got a value different from the mean of their records (%d NaN, %d not reported)"
                  % (site, int(bad.any(1).sum()) + missing_rows, int(phen.sum()) + missing_rows, int(numpy.isnan(mat[phen]).any(1).sum()), missing_rows),
                  witness=dict(wit, got_taxa=bv.taxa, got=mat, expected=exp), coords=coords)
    return {t: mat[i] for i, t in rows.items()}


def gen_other_population(g, pg, kind):
    """A population other than ``pg`` with the same markers: a sub-selection of it, or new taxa with skewed allele frequencies."""
    from pybrops.popgen.gmat.DensePhasedGenotypeMatrix import DensePhasedGenotypeMatrix
    n, p = pg.ntaxa, pg.nvrnt
    if kind == "sub-selection":
        k = int(g.integers(1, n + 1))
        return pg.select_taxa(numpy.sort(g.permutation(n)[:k]))
    if kind == "large structured population":      # > 1000 taxa stored pool after pool, pools differing in allele frequency
        sizes = [int(x) for x in g.choice([300, 520, 700, 1030], int(g.integers(2, 5)))]
        m = sum(sizes)
        raw = numpy.concatenate([(g.random((pg.mat.shape[0], k, p)) < float(g.choice([0.05, 0.3, 0.7, 0.95]))).astype("int8") for k in sizes], axis=1)
    else:
        m = int(g.choice([1, 2, 4, 9, 25, 40]))
        f = float(g.choice([0.05, 0.2, 0.5, 0.9]))
        raw = (g.random((pg.mat.shape[0], m, p)) < f).astype("int8")
    return DensePhasedGenotypeMatrix(raw, taxa=numpy.array(["s%04d" % i for i in range(m)], dtype=object), taxa_grp=None,
                                     vrnt_chrgrp=numpy.ones(p, dtype="int64"), vrnt_phypos=numpy.arange(1, p + 1, dtype="int64"))


def judge_h2(ctx, pt, hkind, h, pop, Mc, ncall, history, coords):
    """C14.h2 after ONE set_h2/set_H2 call: the ratio is judged for the population passed in that call and the model assigned at that time."""
    nt = Mc["nt"]
    raw = numpy.asarray(pop.mat)
    gv = FT.additive_values(raw, Mc["beta"], Mc["u_a"]) if hkind == "set_h2" else FT.genotypic_values(raw, Mc["beta"], Mc["u_a"], Mc["u_d"])
    scale = FT.value_scale(raw, Mc["beta"], Mc["u_a"], Mc["u_d"])
    site = "G_E_Phenotyping." + hkind
    hv = as_vec(h, nt)
    got = numpy.asarray(pt.var_err, dtype=float)
    n = raw.shape[1]
    v0 = gv.var(0); v1 = gv.var(0, ddof=1) if n > 1 else v0
    icls = "%s, %s" % ("dominance model" if Mc["u_d"] is not None else "additive model",
                       "first call on the protocol object" if ncall == 0 else "second and later calls on the same protocol object")
    if got.shape != (nt,):
        ctx.check("C14.h2", False, site, "var_err has one entry per trait", icls, witness={"var_err": got, "history": history}, coords=coords)
        return
    for j in range(nt):
        if not (v0[j] > 1e-12 * max(1.0, scale[j] ** 2)):
            ctx.sumnote("h2: traits with no genetic variance (not judged)")
            continue
        r0 = v0[j] / (v0[j] + got[j]); r1 = v1[j] / (v1[j] + got[j])
        d = min(abs(r0 - hv[j]), abs(r1 - hv[j]))
        okj = d <= 1e-9 and (hv[j] < 1.0 or got[j] == 0.0)
        ctx.maxnote("h2: worst |ratio - target|", d)
        ctx.check("C14.h2", okj, site, "genetic / (genetic + error variance) == target for the population passed in the call", icls,
                  what="%s(%r) as call #%d on one protocol object: var_err=%r gives ratio %.12g (variance %.6g of the %d taxa passed) for target %.12g"
                  % (hkind, h, ncall + 1, got[j], r0, v0[j], n, hv[j]),
                  witness={"history": history, "h": h, "var_err": got, "genetic variance of the population passed (ddof 0)": v0, "model": Mc["kind"],
                           "beta": Mc["beta"], "u_a": Mc["u_a"], "u_d": Mc["u_d"], "raw of the population passed": raw}, coords=coords)


def h2_session(ctx, g, pt, pg, mod, M, coords):
    """1-4 set_h2/set_H2 calls on one live protocol with different populations and targets, interleaved with phenotype() calls and
    re-assignments of var_err / gpmod; every call is judged.  Returns the kind of the last successful call (None if none)."""
    ncalls = 1 if g.random() < 0.3 else int(g.integers(2, 5))
    Mc, modc = M, mod
    history = []
    last = None
    done = 0
    for step in range(ncalls):
        # ---- interleaved operations that must not influence the next call
        if step > 0:
            op = int(g.integers(5))
            try:
                if op == 0:
                    pt.phenotype(gen_other_population(g, pg, "new taxa") if g.random() < 0.5 else pg)
                    ctx.hook("G_E_Phenotyping.phenotype calls"); history.append("phenotype()")
                elif op == 1:
                    pt.var_err = float(g.choice([0.0, 1.0, 7.5])) if g.random() < 0.5 else g.uniform(0, 5, Mc["nt"])
                    history.append("var_err re-assigned")
                elif op == 2 and g.random() < 0.6:
                    if g.random() < 0.5:
                        modc, Mc = gen_model(g, pg.nvrnt, nt=M["nt"])
                        history.append("gpmod re-assigned (new %s model)" % Mc["kind"])
                    else:
                        history.append("gpmod re-assigned (same model)")
                    pt.gpmod = modc
            except Exception as e:
                ctx.raised("interleaved operation in a heritability session", e)
        # ---- the call
        hkind = "set_h2" if g.random() < 0.6 else "set_H2"
        hm = int(g.integers(6))
        h = [1.0, 0.5, 1e-6, float(g.uniform(0.01, 1.0)), None, None][hm]
        if h is None:
            h = g.uniform(0.05, 1.0, Mc["nt"])
            if hm == 5 and Mc["nt"] > 1:      # exactly 1.0 on some traits only
                h[g.permutation(Mc["nt"])[: int(g.integers(1, Mc["nt"]))]] = 1.0
        pk = "the population" if (step == 0 and g.random() < 0.6) else ["the population", "sub-selection", "new taxa", "new taxa", "large structured population"][int(g.integers(5))]
        pop = pg if pk == "the population" else gen_other_population(g, pg, pk)
        history.append("%s(%s, %s of %d taxa)" % (hkind, numpy.round(h, 6).tolist() if numpy.ndim(h) else h, pk, pop.ntaxa))
        try:
            getattr(pt, hkind)(h, pop)
        except Exception as e:
            ctx.raised("G_E_Phenotyping." + hkind, e)
            continue
        ctx.hook("set_h2/set_H2 calls")
        ctx.sumnote("h2 calls on: %s" % pk)
        ctx.sumnote("h2 calls as %s" % ("first call on the protocol" if done == 0 else "second and later calls on the protocol"))
        judge_h2(ctx, pt, hkind, h, pop, Mc, done, list(history), coords)
        done += 1
        last = hkind
    if modc is not mod:
        pt.gpmod = mod          # the trial below is judged against the case's model
    return last


def case_flow(ctx, c):
    from pybrops.breed.prot.pt.G_E_Phenotyping import G_E_Phenotyping
    from pybrops.breed.prot.pt.TruePhenotyping import TruePhenotyping
    from pybrops.breed.prot.bv.MeanPhenotypicBreedingValue import MeanPhenotypicBreedingValue
    from pybrops.breed.prot.bv.TrueBreedingValue import TrueBreedingValue
    g = ctx.rng("flow", c)
    coords = [c, "flow"]
    pg, P = gen_population(g)
    n, p = pg.ntaxa, pg.nvrnt
    raw = numpy.array(pg.mat, copy=True)
    mod, M = gen_model(g, p)
    nt = M["nt"]
    truth = FT.genotypic_values(raw, M["beta"], M["u_a"], M["u_d"])
    addv = FT.additive_values(raw, M["beta"], M["u_a"])
    scale = FT.value_scale(raw, M["beta"], M["u_a"], M["u_d"])
    nenv = int(g.integers(1, 7))
    if g.random() < 0.5:
        nrep_arg = int(g.integers(1, 4)); nrep = [nrep_arg] * nenv
    else:
        nrep_arg = g.integers(1, 5, nenv).astype(g.choice(["int64", "int32"])); nrep = [int(x) for x in nrep_arg]
    vcls = "all-zero" if g.random() < 0.45 else "noisy"
    venv, vrep, verr = gen_variances(g, nt, vcls)
    rname, rng = gen_rng(g)
    mcls = "%s/%s" % (M["kind"], "trait labels" if M["trait"] is not None else "no trait labels")
    ctx.case("flow:%s | %s" % (M["kind"], vcls), raw, pg.taxa, pg.taxa_grp, M["beta"], M["u_a"], M["u_d"],
             nenv, nrep, repr(venv), repr(vrep), repr(verr), trivial=(n < 2 or sum(nrep) < 2))
    for k_, v_ in (("taxon names", P["names"]), ("groups", P["groups"]), ("ploidy", P["ploidy"]), ("rng", rname),
                   ("trait labels", "present" if M["trait"] is not None else "absent"), ("nrep", "scalar" if numpy.ndim(nrep_arg) == 0 else "per-environment")):
        ctx.sumnote("flow cases with %s: %s" % (k_, v_))
    for k_ in ("markers", "traits", "magnitude", "layout"):
        ctx.sumnote("flow cases with additive effects / %s: %s" % (k_, M["arch"][k_]))
    ctx.sumnote("flow cases with every trait's effects summing to exactly 0 over the markers", int(M["arch"]["balanced"]))
    ctx.sumnote("flow cases with markers: %s" % ("1-24" if p < 25 else ("25-127" if p <= 127 else "128-300")))
    try:
        pt = G_E_Phenotyping(mod, nenv=nenv, nrep=nrep_arg, var_env=venv, var_rep=vrep, var_err=verr, rng=rng)
    except Exception as e:
        ctx.raised("G_E_Phenotyping()", e); return
    # ---- heritability: a session of set_h2/set_H2 calls on this one live protocol object
    hkind = None
    session = bool(g.random() < 0.5)
    if session:
        hkind = h2_session(ctx, g, pt, pg, mod, M, coords)
    # requested variances (None requests zero, the constructor default; the error variance after set_h2/set_H2 is the protocol's)
    var_env = as_vec(venv, nt); var_rep = as_vec(vrep, nt)
    var_err = as_vec(pt.var_err if session else verr, nt)
    zero = (var_env == 0) & (var_rep == 0) & (var_err == 0)
    # ---- the trial
    icls = "taxa unnamed" if pg.taxa is None else ("ungrouped population" if pg.taxa_grp is None else "named grouped taxa")
    try:
        df = pt.phenotype(pg)
    except Exception as e:
        ctx.ok("C14.records")
        ctx.violation("C14.records", "G_E_Phenotyping.phenotype", "returns a table for a valid trial (raised %s)" % type(e).__name__, icls,
                      what="phenotype() raised %s: %s" % (type(e).__name__, str(e)[:160]),
                      witness={"nenv": nenv, "nrep": nrep, "var_env": var_env, "var_rep": var_rep, "var_err": var_err, "taxa": pg.taxa}, coords=coords)
        return
    ctx.hook("G_E_Phenotyping.phenotype calls")
    if c % 53 == 0:
        ctx.sample({"population": P, "ntaxa": n, "markers": p, "model": mcls, "nenv": nenv, "nrep": nrep, "var_env": var_env, "var_rep": var_rep,
                    "var_err": var_err, "heritability": hkind, "rng": rname, "taxa": pg.taxa})
    icls = "taxa unnamed" if pg.taxa is None else ("ungrouped population" if pg.taxa_grp is None else "named grouped taxa")
    ix = judge_frame(ctx, df, pg, M, truth, scale, nenv, nrep, "G_E_Phenotyping.phenotype", icls, coords, zero=zero)
    hcls = "error variance fixed by a heritability" if hkind is not None else "explicit variances"
    if ix is not None:
        judge_structure(ctx, df, ix, truth, trait_columns(df, M), n, var_env, var_rep, var_err, "G_E_Phenotyping.phenotype", "small trial, " + hcls, coords,
                        {"nenv": nenv, "nrep": nrep, "ntaxa": n, "heritability": hkind, "rng": rname})
    # ---- the same live protocol object after re-assigning its design: nothing of the first trial may survive
    if g.random() < 0.35:
        nenv2 = int(g.integers(1, 7))
        nrep2_arg = int(g.integers(1, 4)) if g.random() < 0.5 else g.integers(1, 5, nenv2).astype("int64")
        nrep2 = [nrep2_arg] * nenv2 if numpy.ndim(nrep2_arg) == 0 else [int(x) for x in nrep2_arg]
        venv2, vrep2, verr2 = gen_variances(g, nt, "all-zero" if g.random() < 0.3 else "noisy")
        try:
            pt.nenv = nenv2; pt.nrep = nrep2_arg
            pt.var_env = venv2; pt.var_rep = vrep2; pt.var_err = verr2
            df2 = pt.phenotype(pg)
        except Exception as e:
            ctx.raised("G_E_Phenotyping.phenotype after re-assigning the design", e); df2 = None
        if df2 is not None:
            ctx.hook("G_E_Phenotyping.phenotype calls")
            ctx.sumnote("second trials on a re-designed live protocol")
            ve2, vr2, vx2 = as_vec(venv2, nt), as_vec(vrep2, nt), as_vec(verr2, nt)
            icls2 = "re-designed live protocol object"
            ix2 = judge_frame(ctx, df2, pg, M, truth, scale, nenv2, nrep2, "G_E_Phenotyping.phenotype", icls2, coords,
                              zero=(ve2 == 0) & (vr2 == 0) & (vx2 == 0))
            if ix2 is not None:
                judge_structure(ctx, df2, ix2, truth, trait_columns(df2, M), n, ve2, vr2, vx2, "G_E_Phenotyping.phenotype", icls2, coords,
                                {"nenv": nenv2, "nrep": nrep2, "ntaxa": n, "first design": {"nenv": nenv, "nrep": nrep, "var_env": var_env, "var_rep": var_rep, "var_err": var_err}})
    # ---- true phenotyping / true breeding values
    try:
        dft = TruePhenotyping(mod).phenotype(pg)
        ctx.hook("TruePhenotyping.phenotype calls")
        judge_frame(ctx, dft, pg, M, truth, scale, 1, [1], "TruePhenotyping.phenotype", icls, coords, zero=numpy.ones(nt, dtype=bool), has_cells=False)
    except Exception as e:
        ctx.raised("TruePhenotyping.phenotype", e)
    if pg.taxa is not None:
        perm = g.permutation(n)
        try:
            sub = pg.select_taxa(perm)
            tb = TrueBreedingValue(mod)
            b0 = tb.estimate(df, pg); b1 = tb.estimate(None, sub)
            ctx.hook("TrueBreedingValue.estimate calls", 2)
            m0 = numpy.asarray(b0.unscale(), dtype=float); m1 = numpy.asarray(b1.unscale(), dtype=float)
            tl = numpy.array([FT.tol(s) for s in scale])
            site = "TrueBreedingValue.estimate"
            ctx.check("C14.truebv", same_labels(b0.taxa, pg.taxa) and same_labels(b1.taxa, sub.taxa) and same_labels(b1.taxa_grp, sub.taxa_grp), site,
                      "rows carry the genotype matrix' taxon and group labels", "taxa permuted", witness={"got": b1.taxa, "expected": sub.taxa}, coords=coords)
            ctx.check("C14.truebv", m0.shape == (n, nt) and m1.shape == (n, nt) and bool((numpy.abs(m1 - m0[perm]) <= tl[None, :]).all()), site,
                      "permuting the taxa permutes the values", "taxa permuted", witness={"perm": perm, "got": m1, "unpermuted": m0}, coords=coords)
            if M["u_d"] is None:
                ctx.check("C14.truebv", m0.shape == (n, nt) and bool((numpy.abs(m0 - addv) <= tl[None, :]).all()), site,
                          "value == intercept + dosage.u_a", "additive model",
                          witness={"got": m0, "expected": addv, "beta": M["beta"], "u_a": M["u_a"], "raw": raw}, coords=coords)
        except Exception as e:
            ctx.raised("TrueBreedingValue.estimate", e)
    if ix is None and pg.taxa is not None:
        return          # frame already judged broken: the estimation oracle has no sound reference
    # ---- mean-phenotype breeding values
    tcols = trait_columns(df, M)
    has_grp_col = "taxa_grp" in df.columns
    vname, fr, tc, gc, tr = variant_of(g, df, tcols, has_grp_col)
    gname, gt = gen_gtobj(g, pg, None)
    fr = fr.copy()
    f32 = set()
    dkind = ["float64", "float64", "integer scores", "integer scores on some traits", "float32", "float32 on some traits"][int(g.integers(6))]
    if dkind != "float64":
        cols = list(tr) if "some" not in dkind else [t for t in tr if g.random() < 0.5] or [tr[0]]
        for t in cols:
            if dkind.startswith("integer"):          # scores / counts: integer dtype, the records ARE these integers
                fr[t] = numpy.rint(numpy.clip(fr[t].to_numpy(dtype=float), -1e15, 1e15)).astype(g.choice(["int64", "int32"]) if numpy.abs(fr[t]).max() < 2e9 else "int64")
            else:
                fr[t] = fr[t].to_numpy(dtype=float).astype("float32"); f32.add(t)
    # unobserved plots: NaN cells scattered independently per trait (float columns only), some taxa without any record of one trait
    mkind = ["complete", "complete", "cells missing per trait", "cells missing per trait", "some taxa unobserved for one trait"][int(g.integers(5))]
    fcols = [t for t in tr if fr[t].dtype.kind == "f"]
    if mkind != "complete" and fcols:
        labs_ = numpy.array([repr(x) for x in frame_labels(fr, tc)])
        for t in fcols:
            col = fr[t].to_numpy().copy()
            col[g.random(len(col)) < float(g.choice([0.1, 0.3, 0.5]))] = numpy.nan
            if mkind.startswith("some taxa") and g.random() < 0.7:
                col[numpy.isin(labs_, g.choice(numpy.unique(labs_), int(g.integers(1, 3))))] = numpy.nan
            fr[t] = col
    else:
        mkind = "complete"
    ctx.sumnote("estimate tables with %s" % mkind)
    ikind = ["as is", "as is", "string index", "non-unique index", "reversed index", "offset index"][int(g.integers(6))]
    if ikind == "string index":
        fr.index = ["r%03d" % i for i in g.permutation(len(fr))]
    elif ikind == "non-unique index":
        fr.index = g.integers(0, 3, len(fr))
    elif ikind == "reversed index":
        fr.index = numpy.arange(len(fr))[::-1]
    elif ikind == "offset index":
        fr.index = numpy.arange(len(fr)) + int(g.integers(1, 50))
    ctx.sumnote("estimate tables with trait dtype: %s" % dkind); ctx.sumnote("estimate tables with row index: %s" % ikind)
    labels = frame_labels(fr, tc)
    vals = fr[tr].to_numpy(dtype=float)
    means = FT.taxon_means(labels, [tuple(r) for r in vals])
    # a float32 column may be averaged and returned in float32: its tolerance is 1e-6*scale instead of 1e-9*scale
    colscale = [max(1.0, float(numpy.nan_to_num(numpy.abs(vals[:, j])).max())) * (1e3 if tr[j] in f32 else 1.0) for j in range(len(tr))]
    fgroups = None
    if gc is not None and pg.taxa_grp is not None:
        fgroups = dict(zip(labels, fr[gc].tolist()))
    if gc is not None and pg.taxa_grp is None:
        ecls = "group column named but all missing (ungrouped population)"
    else:
        ecls = "group column " + ("named" if gc is not None else "not named")
    gcls = "no genotype matrix" if gt is None else "genotype matrix supplied"
    wit = {"frame": fr.head(40).to_dict("list"), "frame index": list(fr.index[:40]), "trait dtypes": [str(fr[t].dtype) for t in tr], "row index": ikind,
           "frame rows": len(fr), "taxa_col": tc, "taxa_grp_col": gc, "trait_cols": tr, "variant": vname,
           "gtobj taxa": None if gt is None else gt.taxa, "gtobj groups": None if gt is None else gt.taxa_grp}
    ctx.case("estimate:%s | %s" % (vname, gname.split("/")[0].split(" + ")[0]), c, vname, gname, ecls, trivial=(n < 2))
    ctx.sumnote("estimate cases with %s" % ecls)
    ctx.sumnote("estimate cases aligned to an unphased matrix", int(gname.endswith("/unphased")))
    bvp = MeanPhenotypicBreedingValue(tc, gc, tr if (len(tr) > 1 or g.random() < 0.5) else tr[0])
    if gt is None:
        cohort = "no genotype matrix"
    else:
        nph = sum(1 for t in gt.taxa if key_of(t) in means)
        cohort = "cohort %s phenotyped" % ("not at all" if nph == 0 else ("fully" if nph == gt.ntaxa else "partly"))
    ctx.sumnote("estimate cases with %s" % cohort)
    ctx.sumnote("estimate cases with a single candidate", int(gt is not None and gt.ntaxa == 1))
    ctx.sumnote("estimate cases with a taxon repeated in the genotype matrix", int(gt is not None and len(set(key_of(t) for t in gt.taxa)) < gt.ntaxa))
    try:
        bv = bvp.estimate(fr, gt)
    except Exception as e:
        ctx.ok("C14.alignment")
        ctx.violation("C14.alignment", "MeanPhenotypicBreedingValue.estimate", "returns a matrix aligned to the genotype matrix (raised %s)" % type(e).__name__,
                      cohort, what="estimate() raised %s: %s (%s, %s)" % (type(e).__name__, str(e)[:160], cohort, ecls), witness=wit, coords=coords)
        return
    ctx.hook("MeanPhenotypicBreedingValue.estimate calls")
    kcls = ecls if "all missing" in ecls else "group labels present or group column not named"
    judge_estimate(ctx, bv, gt, means, fgroups, tr, colscale, kcls, gcls, coords, wit)
    # ---- the same protocol object on further cohorts: tables with / without group labels, with / without genotype matrix
    if gc is not None and g.random() < 0.5:
        if fgroups is not None:
            grpmap = {k_: int(v_) for k_, v_ in fgroups.items()}
        else:
            grpmap = {k_: 20 + i % 3 for i, k_ in enumerate(sorted(set(labels), key=repr))}
        hist = ["table %s group labels, %s" % ("with" if fgroups is not None else "without", gcls)]
        for step in range(int(g.integers(1, 4))):
            grouped = bool(g.random() < 0.5)
            t2 = fr.iloc[g.permutation(len(fr))].copy()
            if g.random() < 0.5:
                t2 = t2.reset_index(drop=True)
            t2[gc] = [grpmap[k_] for k_ in frame_labels(t2, tc)] if grouped else None
            gname2, gt2 = gen_gtobj(g, pg, None) if g.random() < 0.7 else ("no genotype matrix", None)
            gcls2 = "no genotype matrix" if gt2 is None else "genotype matrix supplied"
            hist.append("table %s group labels, %s" % ("with" if grouped else "without", gcls2))
            k2 = "long-lived protocol object, later table " + ("with group labels" if grouped else "without group labels (column all missing)")
            wit2 = dict(wit, frame=t2.head(40).to_dict("list"), history=list(hist), **{"gtobj taxa": None if gt2 is None else gt2.taxa,
                                                                                      "gtobj groups": None if gt2 is None else gt2.taxa_grp})
            ctx.sumnote("estimate calls on a long-lived protocol object: %s" % ("grouped table" if grouped else "ungrouped table"))
            try:
                bvl = bvp.estimate(t2, gt2)
            except Exception as e:
                ctx.ok("C14.alignment")
                ctx.violation("C14.alignment", "MeanPhenotypicBreedingValue.estimate", "returns a matrix aligned to the genotype matrix (raised %s)" % type(e).__name__,
                              k2, what="estimate() raised %s: %s after %s" % (type(e).__name__, str(e)[:160], hist), witness=wit2, coords=coords)
                continue
            ctx.hook("MeanPhenotypicBreedingValue.estimate calls")
            judge_estimate(ctx, bvl, gt2, means, grpmap if grouped else None, tr, colscale, k2, gcls2, coords, wit2)
    # ---- invariance to the row order of the table
    fr2 = fr.iloc[g.permutation(len(fr))]
    if g.random() < 0.5:
        fr2 = fr2.reset_index(drop=True)
    try:
        bv2 = bvp.estimate(fr2, gt)
    except Exception as e:
        ctx.violation("C14.invariance", "MeanPhenotypicBreedingValue.estimate", "row-shuffled table raises, original succeeds", kcls,
                      what="estimate raised %s: %s on a row permutation of a table it accepted" % (type(e).__name__, str(e)[:120]), witness=wit, coords=coords)
        ctx.ok("C14.invariance"); return
    ctx.hook("MeanPhenotypicBreedingValue.estimate calls")
    m1 = numpy.asarray(bv.unscale(), dtype=float); m2 = numpy.asarray(bv2.unscale(), dtype=float)
    if gt is None and bv.taxa is not None and bv2.taxa is not None and m1.shape == m2.shape and len(bv.taxa) == len(m1):
        o1 = sorted(range(len(m1)), key=lambda i: repr(key_of(bv.taxa[i]))); o2 = sorted(range(len(m2)), key=lambda i: repr(key_of(bv2.taxa[i])))
        lab_ok = [key_of(bv.taxa[i]) for i in o1] == [key_of(bv2.taxa[i]) for i in o2]
        m1 = m1[o1]; m2 = m2[o2]
    else:
        lab_ok = same_labels(bv.taxa, bv2.taxa)
    tl = numpy.array([FT.tol(s) for s in colscale])
    same = lab_ok and m1.shape == m2.shape and bool(((numpy.abs(m1 - m2) <= tl[None, :]) | (numpy.isnan(m1) & numpy.isnan(m2))).all())
    ctx.check("C14.invariance", same, "MeanPhenotypicBreedingValue.estimate", "estimate(row-shuffled table) == estimate(table)", kcls,
              witness=dict(wit, first=m1, second=m2, taxa_first=bv.taxa, taxa_second=bv2.taxa), coords=coords)


# ---------------------------------------------------------------- statistical family
def gen_design(g, tier, c):
    """Pure function of the case's generator: trial design of one statistical case."""
    n = int(g.choice([1, 2, 3, 5, 12]))
    p = int(g.integers(2, 12))
    nt = int(g.integers(1, 4))
    lo, hi = (1000, 3000) if tier == "quick" else (3000, 10000)
    nenv = int(g.integers(lo, hi + 1))
    if g.random() < 0.5:
        r = int(g.integers(1, 5)); nrep = numpy.full(nenv, r, dtype="int64"); scalar = True
    else:
        nrep = g.integers(1, 5, nenv).astype("int64"); scalar = False
    small = (c // 12) % 2 == 1      # many independent trials of 1-3 environments x 1-2 replicates on ONE long-lived protocol, pooled
    if small:
        k = int(g.integers(1, 4))
        T = int(g.integers(300, 801)) if tier == "quick" else int(g.integers(800, 2501))
        nenv = T * k
        if g.random() < 0.5:
            nrep = numpy.full(nenv, int(g.integers(1, 3)), dtype="int64"); scalar = True
        else:
            nrep = numpy.tile(g.integers(1, 3, k).astype("int64"), T); scalar = False
    else:
        k, T = nenv, 1
    cls = ["env only", "rep only", "err only", "env+rep", "mixed", "mixed", "via set_h2", "via set_H2",
           "err zero on some traits", "rep zero on some traits", "env zero on some traits", "heritability exactly 1 on some traits"][c % 12]     # every class in every run
    some = cls.endswith("on some traits")
    if some:
        nt = int(g.integers(2, 4))
    pool = [1e-4, 0.04, 1.0, 2.5, 16.0, 400.0]

    def draw(allow_zero):
        v = g.choice(pool, nt).astype(float)
        if allow_zero:
            v[g.random(nt) < 0.25] = 0.0
        return v
    def partly_zero():
        v = g.choice(pool, nt).astype(float)
        v[g.permutation(nt)[: int(g.integers(1, nt))]] = 0.0
        return v
    z = numpy.zeros(nt)
    if cls == "err zero on some traits":
        ve, vr, vx = (draw(True) if g.random() < 0.5 else z), z, partly_zero()
    elif cls == "rep zero on some traits":
        ve, vr, vx = (draw(True) if g.random() < 0.5 else z), partly_zero(), (draw(True) if g.random() < 0.4 else z)
    elif cls == "env zero on some traits":
        ve, vr, vx = partly_zero(), (draw(True) if g.random() < 0.4 else z), (draw(True) if g.random() < 0.4 else z)
    elif cls == "heritability exactly 1 on some traits":
        ve, vr, vx = draw(True), (draw(True) if g.random() < 0.4 else z), z
    elif cls == "env only":
        ve, vr, vx = draw(False), z, z
    elif cls == "rep only":
        ve, vr, vx = z, draw(False), z
    elif cls == "err only":
        ve, vr, vx = z, z, draw(False)
    elif cls == "env+rep":
        ve, vr, vx = draw(True), draw(False), z
    else:
        ve, vr, vx = draw(True), draw(True), draw(True)
    h = None; hfun = None
    if cls.startswith("via"):
        h = g.uniform(0.05, 0.95, nt) if g.random() < 0.5 else float(g.choice([0.2, 0.5, 0.9]))
        hfun = cls.split()[1]
    elif cls.startswith("heritability"):
        h = g.uniform(0.05, 0.95, nt); h[g.permutation(nt)[: int(g.integers(1, nt))]] = 1.0
        hfun = "set_h2" if g.random() < 0.5 else "set_H2"
        if n == 1:
            n = 2                      # a single taxon has no genetic variance: the heritability would fix nothing
    scalar_var = (g.random() < 0.3) and not some
    if scalar_var:      # the same request for every trait, passed as a plain number (None for zero half of the time)
        ve, vr, vx = [numpy.full(nt, v[0]) for v in (ve, vr, vx)]
    none_zero = bool(g.random() < 0.5)
    return dict(n=n, p=p, nt=nt, nenv=nenv, nrep=nrep, scalar=scalar, cls=cls, var_env=ve, var_rep=vr, var_err=vx, h=h, hfun=hfun,
                scalar_var=scalar_var, none_zero=none_zero, small=small, k=k, T=T)


def ntests_of(D):
    """Upper bound (known before sampling) on the chi-square tests of one design: three strata per trait."""
    return 3 * D["nt"]


def run_trial(D, seed, mult, rkind):
    """Build population/model/protocol of the design and run one trial with ``mult`` x the environments."""
    from pybrops.popgen.gmat.DensePhasedGenotypeMatrix import DensePhasedGenotypeMatrix
    from pybrops.model.gmod.DenseAdditiveLinearGenomicModel import DenseAdditiveLinearGenomicModel
    from pybrops.model.gmod.DenseAdditiveDominanceLinearGenomicModel import DenseAdditiveDominanceLinearGenomicModel
    from pybrops.breed.prot.pt.G_E_Phenotyping import G_E_Phenotyping
    g = numpy.random.Generator(numpy.random.PCG64(seed))
    n, p, nt = D["n"], D["p"], D["nt"]
    raw = g.integers(0, 2, (2, n, p)).astype("int8")
    if n > 1:
        raw[0, 0, 0], raw[0, 1, 0], raw[1, 0, 0], raw[1, 1, 0] = 0, 1, 0, 1     # guarantee genetic variance at marker 0
    names = numpy.array([NAME_POOL[i] for i in g.permutation(len(NAME_POOL))[:n]], dtype=object)
    pg = DensePhasedGenotypeMatrix(raw, taxa=names, taxa_grp=g.integers(0, 3, n).astype("int64"),
                                   vrnt_chrgrp=numpy.ones(p, dtype="int64"), vrnt_phypos=numpy.arange(1, p + 1, dtype="int64"))
    beta = g.normal(0, 5, (1, nt)); u_a = gen_effects(g, p, nt, 1.0, stat=True)[1]; u_a[0] = numpy.abs(g.normal(0, 1, nt)) + 0.5
    dom = D["hfun"] == "set_H2" or g.random() < 0.3
    u_d = gen_effects(g, p, nt, 0.7, stat=True)[1] if dom else None
    trait = numpy.array(TRAIT_POOL[:nt], dtype=object)
    mod = (DenseAdditiveDominanceLinearGenomicModel(beta=beta.copy(), u_misc=None, u_a=u_a.copy(), u_d=u_d.copy(), trait=trait) if dom
           else DenseAdditiveLinearGenomicModel(beta=beta.copy(), u_misc=None, u_a=u_a.copy(), trait=trait))
    s = int(g.integers(0, 2 ** 31))
    if rkind == "Generator":
        rng = numpy.random.Generator(numpy.random.PCG64(s))
    elif rkind == "RandomState":
        rng = numpy.random.RandomState(s)
    else:
        from pybrops.core.random import prng
        prng.seed(s); rng = None
    nenv = D["nenv"] * mult
    nrep = int(D["nrep"][0]) if D["scalar"] else numpy.tile(D["nrep"], mult)
    nenv_all, nrep_all = nenv, nrep
    if D["small"]:                 # the protocol describes ONE small trial; it is run T x mult times
        nenv = D["k"]; nrep = nrep if D["scalar"] else D["nrep"][: D["k"]].copy()
    def arg(v):
        if not D["scalar_var"]:
            return v.copy()
        return None if (v[0] == 0.0 and D["none_zero"]) else float(v[0])
    pt = G_E_Phenotyping(mod, nenv=nenv, nrep=nrep, var_env=arg(D["var_env"]), var_rep=arg(D["var_rep"]), var_err=arg(D["var_err"]), rng=rng)
    truth = FT.genotypic_values(raw, beta, u_a, u_d)
    var_err = D["var_err"].copy()
    nset = 0
    if D["h"] is not None and n > 1:
        getattr(pt, D["hfun"])(D["h"], pg)
        nset = 1
        var_err = numpy.array(pt.var_err, dtype=float)      # the error variance the heritability fixed (its formula is judged by C14.h2)
    if D["small"]:
        import pandas
        frames = []
        for t in range(D["T"] * mult):
            f = pt.phenotype(pg)
            f["env"] = f["env"].to_numpy() + 10 * t          # environments of different trials are different environments
            frames.append(f)
        df = pandas.concat(frames, axis=0, ignore_index=True)
        nenv, nrep = nenv_all, nrep_all
    else:
        df = pt.phenotype(pg)
    nrep_vec = numpy.full(nenv, nrep, dtype="int64") if numpy.ndim(nrep) == 0 else nrep
    return pg, mod, dict(kind="additive+dominance" if dom else "additive q=1", nt=nt, trait=trait, beta=beta, u_a=u_a, u_d=u_d), truth, df, nenv, nrep_vec, var_err, nset


def strata(D, pg, M, truth, df, var_err):
    """Residuals against truth and the three chi-square strata.  Returns list of (stratum, trait, stat, df, sigma2, maxabs) + arrays."""
    index = {key_of(t): i for i, t in enumerate(pg.taxa)}
    ix = numpy.array([index[k] for k in frame_labels(df, "taxa")], dtype=int)
    tcols = trait_columns(df, M)
    vals = df[tcols].to_numpy(dtype=float)
    resid = vals - truth[ix]
    cinv, env_of_cell = cells_of(df)
    tests = list(FT.level_tests(resid, cinv, env_of_cell, pg.ntaxa, D["var_env"], D["var_rep"], var_err))
    return tests, resid, cinv, env_of_cell, vals


def min_detectable_ratio(df, level, power=0.99):
    """Smallest variance ratio > 1 rejected with the given power by a two-sided chi-square test at ``level``."""
    from scipy import stats as st
    return float(st.chi2.isf(level / 2.0, df) / st.chi2.ppf(1.0 - power, df))


def case_stat(ctx, c, level):
    g = ctx.rng("design", c)
    D = gen_design(g, ctx.tier, c)
    rkind = ["Generator", "Generator", "RandomState", "global"][int(g.integers(4))]
    coords = [c, "stat"]
    n, nt = D["n"], D["nt"]
    icls = "error variance fixed by a heritability" if D["h"] is not None else "explicit variances"
    if D["small"]:
        icls = "many trials of 1-3 environments on one protocol object, pooled / " + icls
        ctx.sumnote("stat cases pooling many small trials")
        ctx.sumnote("small trials run on long-lived protocols", D["T"])
    ctx.sumnote("stat cases with rng: %s" % rkind)
    ctx.sumnote("stat cases with variances passed as: %s" % ("numbers/None" if D["scalar_var"] else "per-trait arrays"))
    ctx.case("stat:%s | %s" % (D["cls"], "many small trials pooled" if D["small"] else "one large trial"), D["k"], D["T"],
             D["n"], D["p"], D["nenv"], D["nrep"], D["var_env"], D["var_rep"], D["var_err"], repr(D["h"]))
    site = "G_E_Phenotyping.phenotype"
    try:
        pg, mod, M, truth, df, nenv, nrep_vec, var_err, nset = run_trial(D, int(g.integers(2 ** 62)), 1, rkind)
    except Exception as e:
        ctx.raised("G_E_Phenotyping.phenotype (large trial)", e); return
    ctx.hook("G_E_Phenotyping.phenotype calls", D["T"]); ctx.hook("set_h2/set_H2 calls", nset)
    scale = FT.value_scale(pg.mat, M["beta"], M["u_a"], M["u_d"])
    judge_frame(ctx, df, pg, M, truth, scale, nenv, [int(x) for x in nrep_vec], site, "large trial", coords, zero=None)
    tests, resid, cinv, env_of_cell, vals = strata(D, pg, M, truth, df, var_err)
    ctx.sample({"design": {k: (v if k != "nrep" else ("scalar %d" % v[0] if D["scalar"] else "vector 1..4")) for k, v in D.items()}, "rng": rkind,
                "records": len(df), "requested var_err": var_err})
    ctx.sumnote("records observed", len(df))
    suspects = []
    minp = 1.0
    for (stratum, j, stat, dfree, sigma2, maxabs) in tests:
        colscale = max(1.0, float(numpy.abs(vals[:, j]).max()))
        if sigma2 <= 0.0:
            # the stratum must vanish: effects constant within (env), (env, rep)
            ctx.check("C14.constancy", maxabs <= 10 * FT.tol(colscale), site,
                      REL_CONST[stratum], icls,
                      what="%s stratum of trait %d should vanish (requested variance 0) but reaches %.3g" % (stratum, j, maxabs),
                      witness={"design": D, "stratum": stratum, "trait": j, "max abs deviation": maxabs}, coords=coords)
            continue
        if dfree <= 0:
            continue
        pv = ST.chi2_var_pvalue(stat, dfree, sigma2)
        minp = min(minp, pv)
        ctx.maxnote("variance: min detectable ratio (99%% power), %s stratum" % stratum, min_detectable_ratio(dfree, level))
        if pv < level:
            suspects.append((stratum, j, stat, dfree, sigma2, pv))
        else:
            ctx.ok("C14.variance")
    ctx.maxnote("variance: -log10(min first-stage p)", -numpy.log10(max(minp, 1e-300)))
    # independence: a stratum with positive variance consists of (almost surely) pairwise distinct effects
    within, cm, em, ecnt = FT.decompose(resid, cinv, env_of_cell)
    cdev = cm - em[env_of_cell]
    multi = ecnt[env_of_cell] >= 2
    for j in range(nt):
        q = 1e-12 * max(1.0, float(numpy.abs(vals[:, j]).max()))
        vr = D["var_rep"][j] + var_err[j] / n
        for name, arr, positive in (("error", within[:, j] if n >= 2 else within[:0, j], var_err[j] > 0),
                                    ("replicate", cdev[multi, j], vr > 0),
                                    ("environment", em[:, j], D["var_env"][j] + vr > 0)):
            if not positive or len(arr) < 20:
                continue
            nd = len(numpy.unique(numpy.rint(arr / q)))
            ctx.check("C14.independence", nd >= 0.9 * len(arr), site,
                      REL_INDEP[name], icls,
                      what="%s stratum of trait %d: only %d distinct effects among %d" % (name, j, nd, len(arr)),
                      witness={"design": D, "stratum": name, "trait": j, "distinct": nd, "of": len(arr), "head": arr[:12]}, coords=coords)
    if suspects:
        ctx.sumnote("first-stage rejections", len(suspects))
        try:
            pg2, mod2, M2, truth2, df2, nenv2, nrep2, var_err2, nset2 = run_trial(D, int(g.integers(2 ** 62)), 4, rkind)
        except Exception as e:
            ctx.raised("G_E_Phenotyping.phenotype (confirmation trial)", e); return
        ctx.hook("G_E_Phenotyping.phenotype calls")
        second = {(s, j): (stat, dfree, sigma2) for (s, j, stat, dfree, sigma2, _) in strata(D, pg2, M2, truth2, df2, var_err2)[0]}
        for (stratum, j, stat, dfree, sigma2, pv) in suspects:
            s2, d2, sg2 = second[(stratum, j)]
            pv2 = ST.chi2_var_pvalue(s2, d2, sg2) if sg2 > 0 else 0.0
            ctx.check("C14.variance", not (pv2 < ST.ALPHA_CONFIRM), site, "realised %s-stratum variance == requested (confirmed rejection)" % stratum, icls,
                      what="%s stratum, trait %d: first stage SS/df/sigma2 = %.4f on %d df (p=%.3g), confirmation %.4f on %d df (p=%.3g); requested env/rep/err = %r/%r/%r"
                      % (stratum, j, stat / dfree / sigma2, dfree, pv, s2 / d2 / sg2 if sg2 > 0 else float("nan"), d2, pv2, D["var_env"][j], D["var_rep"][j], var_err[j]),
                      witness={"design": D, "stratum": stratum, "trait": j, "first": [stat, dfree, sigma2, pv], "confirm": [s2, d2, sg2, pv2],
                               "requested var_err": var_err}, coords=coords)


QUICK_FLOW, THOROUGH_FLOW = 3000, 80000
QUICK_STAT, THOROUGH_STAT = 48, 400


def plan(ctx):
    total = QUICK_STAT if ctx.tier == "quick" else THOROUGH_STAT
    ntot = sum(ntests_of(gen_design(ctx.rng("design", c), ctx.tier, c)) for c in range(total))
    return ST.ALPHA_FAMILY / max(1, ntot), ntot


def run_shard(ctx):
    from pybrops.breed.prot.pt.G_E_Phenotyping import G_E_Phenotyping
    from pybrops.breed.prot.bv.MeanPhenotypicBreedingValue import MeanPhenotypicBreedingValue
    assert boot.under_repo(G_E_Phenotyping.phenotype) and boot.under_repo(MeanPhenotypicBreedingValue.estimate)
    level, ntot = plan(ctx)
    ctx.note("per-test level (Bonferroni)", level); ctx.note("chi-square tests planned in this run (upper bound)", ntot)
    for c in ctx.case_ids(QUICK_STAT, THOROUGH_STAT):
        case_stat(ctx, c, level)
    for c in ctx.case_ids(QUICK_FLOW, THOROUGH_FLOW):
        case_flow(ctx, c)


def replay(ctx, coords):
    if coords[1] == "stat":
        level, _ = plan(ctx)
        case_stat(ctx, int(coords[0]), level)
    else:
        case_flow(ctx, int(coords[0]))
