"""C07 - selection protocols turn criteria into valid, correct cross configurations."""
import importlib
import inspect
import pkgutil

import numpy

from pbmon import boot  # noqa: F401
from pbmon.oracle import sampling as O
from pbmon.oracle import c07_selcfg as R

PROPERTY = "C07"
NSHARDS = {"quick": 4, "thorough": 16}
CLAUSES = {
    "C07.shape": 2000, "C07.member": 2000, "C07.multiplicity": 2000, "C07.outcross": 1200, "C07.xmap": 150,
    "C07.solution": 600, "C07.reentrant": 150, "C07.truncation": 100, "C07.equivariance": 120, "C07.mo": 120,
    "C07.util.tiled.balance": 1000, "C07.util.sus.floorceil": 400, "C07.util.outcross.localopt": 1000,
}
HOOKS_REQUIRED = ["tiled_choice<-configuration", "stochastic_universal_sampling<-configuration", "outcross_shuffle<-configuration",
                  "plug-in optimiser called by protocol", "constrained front mixing feasible and infeasible points",
                  "cross-level truncation with nparent >= 3 and selfing allowed", "fronts re-evaluated: real multi-objective optimiser",
                  "equivariance: decoy run with different content in the inputs the protocol does not read",
                  "select runs whose callback re-entered the protocol"]
RULE = ("three seeded families.  cfg: the eight sampled configuration classes built directly from hostile decisions (subsets whose size "
        "divides / does not divide / exceeds the number of slots, repeated members; contribution vectors with zeros, one-hot, equal, "
        "1e-9..1 magnitudes; integer/binary counts with zeros, totals below/at/above the slot count; candidate-cross maps with and without "
        "selfing rows), ncross 1-12, nparent 1-4, scalar and array nmating/nprogeny, rng = Generator | RandomState | library global | "
        "crafted PCG64 states whose first draw is 0.0 or the largest double below 1; every configuration is also re-sampled.  "
        "sel: all concrete SelectionProtocol classes found at run time (57), each with an explicit optimiser (harness exact / prescribed-"
        "decision / front / deterministic candidate-list plug-in, the repo's sorting optimiser, or a GA with ngen<=15, pop<=24), "
        "1-2 inequality and/or 1 equality constraint (harness transformation making 30-70 % of all decisions infeasible) in half of the "
        "multi-objective runs of every encoding, cross-level protocols with nparent 1-4 x unique_parents on/off, populations with shuffled names and "
        "ungrouped families, gmat = the pgmat object | a distinct phased object | unphased counts, the distinct ones carrying their own "
        "calls (5-50 % of the alleles differ from pgmat) in 60 % of the worlds, breeding values drawn independently of the genomic model, 1-3 traits, ties and duplicated individuals, 1-2 objectives, "
        "objective weights of mixed sign and non-unit magnitude whenever there are 2 objectives (all encodings), "
        "ndset weights of both signs with four harness transformations or the library default, in a fifth of the runs one of "
        "ndset_trans / obj_trans / a constraint transformation re-enters the protocol (solve, select, problem, evalfn on a reference population).  equi: subset-encoded protocols run on a "
        "population, on a consistently permuted copy, on a renamed copy and on a decoy copy whose inputs the family does not read (pgmat / "
        "gmat / bvmat / gpmod, table USES) carry different content, with exact optimisers.  Non-trivial: more than one slot or "
        "more than one candidate; distinct = digest of the generated inputs.")
ASSUME = ["all inputs of one select() call list the taxa in the same order (the API has no alignment step)",
          "a protocol minimises obj_wt * obj_trans(latent) and its latent vector is the negated criterion, so with weight +1 and a "
          "non-negative linear transformation 'best' = highest criterion; weight -1 = lowest",
          "a protocol or optimiser that raises produces no configuration: counted under 'raised' (the property constrains the "
          "configuration produced)",
          "mate-selection encodings: the rows of the configuration are candidate crosses; the exchange clause does not apply to them "
          "(an exchange would create a cross outside the solution); instead every row must be a chosen candidate cross and the "
          "candidate-cross map must enumerate exactly the admissible parent combinations",
          "an all-zero contribution/count vector defines no proportional share: only counted",
          "truncation by an independently computed criterion: EBV, GEBV, generalised weighted GEBV and weighted GS (subset encoding); "
          "OHV and usefulness-criterion crosses are ranked by the problem's own evaluation of single candidates (their definitions belong to C05/C18)",
          "unscale=False protocols rank on standardised values: the independent criterion is standardised per trait before the index is formed",
          "equivariance is asserted only when the enumerated optimum is unique by more than 1e-7 (relative), 5e-3 for criteria built on a "
          "coancestry matrix, whose diagonal receives a random jitter (ties there are broken by the generator, not by the inputs)",
          "the tighter floor/ceil reading of 'within one of the proportional share' (DESIGN) is used, with the C17 allowance when the share "
          "is within 1e-9 of an integer and the library's float arithmetic may round either way",
          "C07.mo is judged on the whole returned front (feasible and infeasible members alike): the declared preference is "
          "ndset_wt*ndset_trans(soln_obj), nothing in it refers to constraint violations",
          "cross-level truncation ranks every row of the candidate-cross map, whether or not the protocol's decision space lists it",
          "each family reads the inputs its name and problem() documentation name (table USES): genomic criteria are computed from the "
          "calls of the gmat argument, EBV criteria from the bvmat argument; replacing any other input must not change an exact choice",
          "C07.mo second route: every returned front decision is evaluated afresh with the problem object the protocol built (captured "
          "from protocol.problem); the configuration must come from a maximiser (1e-9 relative) of the declared preference over those values; "
          "real NSGA-II classes (the protocols' defaults, ngen<=15, pop<=24) solve a third of the multi-objective runs",
          "re-entrant callbacks: a transformation that calls back into the same protocol object (sosolve/mosolve/select for a reference "
          "population of another size, problem() + evalfn, evalfn of another candidate) and then returns what the plain transformation "
          "returns must leave the outer call's result unchanged; exceptions of the nested call are swallowed by the callback; the harness "
          "recomputes preferences with the plain function; an outer exception is a violation only if the plain callback succeeds",
          "C07.mo accepts any maximiser of ndset_wt*ndset_trans(front) (ties), recomputed by calling the declared function on the returned front"]
TOL = 1e-9

CFG_CLASSES = ["Subset", "Real", "Integer", "Binary", "SubsetMate", "RealMate", "IntegerMate", "BinaryMate"]
INDEPENDENT = ("EstimatedBreedingValue", "GenomicEstimatedBreedingValue", "GeneralizedWeightedGenomicEstimatedBreedingValue", "WeightedGenomic")
OWN_CRITERION = ("OptimalHaploidValue", "UsefulnessCriterion")
NOT_EQUIVARIANT = ("Random", "ExpectedMaximumBreedingValue")   # criterion is drawn / simulated: no deterministic choice to permute
GA_SO = {"Subset": "SubsetGeneticAlgorithm", "Real": "RealGeneticAlgorithm", "Integer": "IntegerGeneticAlgorithm", "Binary": "BinaryGeneticAlgorithm"}
GA_MO = {e: "NSGA2" + v for e, v in GA_SO.items()}

# which of the population inputs of select() each family documents as the source of its criterion
USES = {"EstimatedBreedingValue": {"bvmat"}, "FamilyEstimatedBreedingValue": {"bvmat"},
        "GenomicEstimatedBreedingValue": {"gmat", "gpmod"}, "GeneralizedWeightedGenomicEstimatedBreedingValue": {"gmat", "gpmod"},
        "WeightedGenomic": {"gmat", "gpmod"}, "OptimalContribution": {"bvmat", "gmat"}, "MeanExpectedHeterozygosity": {"gmat"},
        "MeanGenomicRelationship": {"gmat"}, "L2NormGenomic": {"gmat"}, "MultiObjectiveGenomic": {"gmat", "gpmod"},
        "PopulationAlleleFrequencyDistance": {"gmat", "gpmod"}, "PopulationAlleleUnavailability": {"gmat", "gpmod"},
        "OptimalHaploidValue": {"pgmat", "gpmod"}, "OptimalPopulationValue": {"pgmat", "gpmod"}, "GenotypeBuilder": {"pgmat", "gpmod"},
        "UsefulnessCriterion": {"pgmat", "gpmod"}}

_STATE = {}
ACTIVE = {"on": False, "icls": "any", "coords": None, "ctx": None}


# ---------------------------------------------------------------- hooks on the sampling utilities
class Renamed:
    """Recording context that files the C17 utility monitors under C07.util.* while they watch calls made by configurations."""

    def __init__(self, ctx):
        self.ctx = ctx

    @staticmethod
    def m(clause):
        return clause.replace("C17.", "C07.util.", 1)

    def check(self, clause, *a, **k):
        return self.ctx.check(self.m(clause), *a, **k)

    def ok(self, clause, n=1):
        return self.ctx.ok(self.m(clause), n)

    def violation(self, clause, *a, **k):
        return self.ctx.violation(self.m(clause), *a, **k)


def install(ctx):
    if _STATE.get("installed"):
        ACTIVE["ctx"] = ctx
        return
    from pbmon import hooks
    from pybrops.core.random import sampling as SM
    for mod in CFG_CLASSES:   # make sure every module that binds the helpers is loaded before rebinding
        importlib.import_module("pybrops.breed.prot.sel.cfg.%sSelectionConfiguration" % mod)
    ACTIVE["ctx"] = ctx
    o_tiled, o_sus, o_out = SM.tiled_choice, SM.stochastic_universal_sampling, SM.outcross_shuffle
    assert boot.under_repo(o_tiled) and boot.under_repo(o_sus) and boot.under_repo(o_out)

    def w_tiled(a, size=None, replace=True, p=None, rng=None):
        out = o_tiled(a, size, replace, p, rng)
        if ACTIVE["on"] and not replace and p is None:
            c = ACTIVE["ctx"]; c.hook("tiled_choice<-configuration")
            O.check_tiled(Renamed(c), numpy.array(a, copy=True), size, out, ACTIVE["icls"], ACTIVE["coords"])
        return out

    def w_sus(a, p, size=None, rng=None):
        out = o_sus(a, p, size, rng)
        if ACTIVE["on"] and float(numpy.sum(p)) > 0:
            c = ACTIVE["ctx"]; c.hook("stochastic_universal_sampling<-configuration")
            O.check_sus(Renamed(c), numpy.array(a, copy=True), numpy.array(p, copy=True), size, out, ACTIVE["icls"], ACTIVE["coords"])
        return out

    def w_out(xconfig, rng=None):
        before = numpy.array(xconfig, copy=True)
        r = o_out(xconfig, rng)
        if ACTIVE["on"]:
            c = ACTIVE["ctx"]; c.hook("outcross_shuffle<-configuration")
            O.check_outcross(Renamed(c), before, xconfig, ACTIVE["icls"], ACTIVE["coords"])
        return r
    for o, w in ((o_tiled, w_tiled), (o_sus, w_sus), (o_out, w_out)):
        w.__wrapped_orig__ = o
        n = len(hooks.rebind(o, w))
        assert n >= 2, "rebind of %s reached %d bindings" % (o.__name__, n)
    _STATE["installed"] = True


class watching:
    def __init__(self, icls, coords):
        self.icls, self.coords = icls, coords

    def __enter__(self):
        ACTIVE.update(on=True, icls=self.icls, coords=self.coords)

    def __exit__(self, *a):
        ACTIVE.update(on=False)
        return False


# ---------------------------------------------------------------- generators
def mkrng(g, allow_adv=True):
    r = int(g.integers(0, 10 if allow_adv else 8))
    s = int(g.integers(0, 2 ** 31))
    from pybrops.core.random import prng
    prng.seed(s)   # the library global is always put in a known state
    if r < 3:
        return "Generator", numpy.random.Generator(numpy.random.PCG64(s))
    if r < 5:
        return "RandomState", numpy.random.RandomState(s)
    if r < 8:
        return "global", None
    from pbmon.gen.advrng import crafted_generator
    kind = ["zero", "max"][r - 8]
    return "crafted-state-first-draw-%s" % kind, crafted_generator(kind, s)


def draw_arrays(g, n, m, t, bvcls="gauss", polymorphic=False):
    from pbmon.gen import pop
    mat = g.integers(0, 2, (2, n, m)).astype("int8")
    if g.random() < 0.3 and n > 2:       # duplicated individuals (ties in every genomic criterion)
        mat[:, 1, :] = mat[:, 0, :]
    if polymorphic:
        mat[0, 0, :] = 0; mat[1, 0, :] = 1   # both alleles present at every locus
    # the genotype matrix handed over as ``gmat`` carries its own calls (genotyping errors / a different call set of the same
    # individuals) in 60 % of the worlds, so that a criterion computed from the documented input tells the two inputs apart
    gmat = mat.copy()
    if g.random() < 0.6:
        flip = g.random(gmat.shape) < float(g.choice([0.05, 0.2, 0.5]))
        if not flip.any():
            flip[int(g.integers(2)), int(g.integers(n)), int(g.integers(m))] = True
        gmat = numpy.where(flip, 1 - gmat, gmat).astype("int8")
        if polymorphic:
            gmat[0, 0, :] = 0; gmat[1, 0, :] = 1
    names = numpy.array(["x%03d" % v for v in g.permutation(900)[:n]], dtype=object)   # distinct, not in sorted order
    grp = g.integers(0, 3, n).astype("int64")
    nchr = int(g.integers(1, 3))
    chrgrp = pop.chrom_layout(g, m, nchr)
    raw = g.normal(size=(n, t)) * g.uniform(0.5, 3.0, t) + g.normal(size=t) * 3
    if bvcls == "ties":
        raw = numpy.round(raw)
        for j in range(t):
            if raw[:, j].std() == 0:
                raw[:, j] += numpy.arange(n)
    elif bvcls == "duplicates" and n > 2:
        raw[1] = raw[0]
    u = g.normal(size=(m, t))
    u[g.random((m, t)) < 0.15] = 0.0
    return dict(mat=mat, gmat=gmat, taxa=names, taxa_grp=grp, chrgrp=chrgrp, phypos=numpy.arange(1, m + 1, dtype="int64") * 10,
                genpos=numpy.cumsum(g.uniform(0.001, 0.3, m)), xoprob=pop.make_xoprob(g, chrgrp, "random"),
                vname=numpy.array(["m%03d" % i for i in range(m)], dtype=object), raw=raw, beta=g.normal(size=(1, t)), u=u,
                trait=numpy.array(["trait%d" % i for i in range(t)], dtype=object), nchr=nchr)


def build_world(A, perm=None, rename=False, unphased=False):
    from pybrops.popgen.gmat.DensePhasedGenotypeMatrix import DensePhasedGenotypeMatrix
    from pybrops.popgen.gmat.DenseGenotypeMatrix import DenseGenotypeMatrix
    from pybrops.popgen.bvmat.DenseBreedingValueMatrix import DenseBreedingValueMatrix
    from pybrops.model.gmod.DenseAdditiveLinearGenomicModel import DenseAdditiveLinearGenomicModel
    n = A["mat"].shape[1]
    p = numpy.arange(n) if perm is None else numpy.asarray(perm)
    taxa = A["taxa"][p]
    if rename:
        taxa = numpy.array(["renamed_%s" % s[::-1] for s in taxa], dtype=object)
    vk = dict(vrnt_chrgrp=A["chrgrp"].copy(), vrnt_phypos=A["phypos"].copy(), vrnt_name=A["vname"].copy(), vrnt_genpos=A["genpos"].copy(),
              vrnt_xoprob=A["xoprob"].copy())
    pg = DensePhasedGenotypeMatrix(A["mat"][:, p, :].copy(), taxa=taxa.copy(), taxa_grp=A["taxa_grp"][p].copy(), **vk)
    pg.group_vrnt()
    if unphased:
        gm = DenseGenotypeMatrix(A["gmat"][:, p, :].sum(0).astype("int8"), taxa=taxa.copy(), taxa_grp=A["taxa_grp"][p].copy(), ploidy=2,
                                 **{k: v.copy() for k, v in vk.items()})
        gm.group_vrnt()
    elif unphased is None:      # an equal but distinct phased object: the configuration must carry the matrix passed as pgmat
        gm = DensePhasedGenotypeMatrix(A["gmat"][:, p, :].copy(), taxa=taxa.copy(), taxa_grp=A["taxa_grp"][p].copy(),
                                       **{k: v.copy() for k, v in vk.items()})
        gm.group_vrnt()
    else:
        gm = pg
    bv = DenseBreedingValueMatrix.from_numpy(A["raw"][p].copy(), taxa=taxa.copy(), taxa_grp=A["taxa_grp"][p].copy(), trait=A["trait"].copy())
    mod = DenseAdditiveLinearGenomicModel(beta=A["beta"].copy(), u_misc=None, u_a=A["u"].copy(), trait=A["trait"].copy())
    return dict(pg=pg, gm=gm, bv=bv, mod=mod, gm_calls=(A["mat"] if gm is pg else A["gmat"]))


def criterion(fam, A, kw, calls=None):
    """Per-individual criterion matrix (n x ntrait) from the raw inputs, for the truncation-type families.  Each family reads the
    input its name documents: EBV the breeding-value matrix as passed, the genomic families the calls of ``gmat`` (``calls``)."""
    if fam == "EstimatedBreedingValue":
        return A["raw"].astype(float)
    Z = (A["gmat"] if calls is None else calls).astype(int).sum(0).astype(float)          # allele-1 counts of the gmat argument
    u = A["u"]
    if fam == "GenomicEstimatedBreedingValue":
        return Z @ u + A["beta"]
    alpha = 0.5 if fam == "WeightedGenomic" else float(kw["alpha"])
    n = Z.shape[0]
    p1 = Z.sum(0) / (2.0 * n)                               # frequency of allele 1
    out = numpy.zeros((n, u.shape[1]))
    for j in range(u.shape[1]):
        fav = numpy.where(u[:, j] > 0, p1, 1.0 - p1)        # frequency of the favourable allele of trait j
        w = numpy.where(u[:, j] == 0, 0.0, u[:, j] * numpy.power(fav, -alpha))
        out[:, j] = Z @ w
    return out


def protocols():
    if "protocols" not in _STATE:
        import pybrops.breed.prot.sel as S
        from pybrops.breed.prot.sel.SelectionProtocol import SelectionProtocol
        from pybrops.breed.prot.sel.MateSelectionProtocol import MateSelectionProtocol
        found, broken = [], []
        for mi in sorted(pkgutil.iter_modules(S.__path__), key=lambda x: x.name):
            if mi.ispkg:
                continue
            try:
                mod = importlib.import_module("pybrops.breed.prot.sel." + mi.name)
            except Exception as e:
                broken.append("%s: %s" % (mi.name, type(e).__name__))
                continue
            for nme, c in sorted(vars(mod).items()):
                if inspect.isclass(c) and c.__module__ == mod.__name__ and issubclass(c, SelectionProtocol) and not inspect.isabstract(c):
                    enc = R.encoding_of(nme)
                    found.append((nme, c, enc, issubclass(c, MateSelectionProtocol), nme.replace(enc + "Selection", "")))
        _STATE["protocols"] = found
        _STATE["unimportable"] = broken
    return _STATE["protocols"]


def defsite(cls, meth):
    for k in cls.__mro__:
        if meth in vars(k):
            return "%s.%s" % (k.__name__, meth)
    return "%s.%s" % (cls.__name__, meth)


def extra_kwargs(g, cls, t, m, nchr=1):
    """Protocol-specific constructor arguments, by parameter name."""
    ps = inspect.signature(cls.__init__).parameters
    kw = {}
    if "ntrait" in ps: kw["ntrait"] = t
    if "unscale" in ps: kw["unscale"] = bool(g.random() < 0.6)
    if "alpha" in ps: kw["alpha"] = float(g.choice([0.0, 0.3, 0.5, 1.0]))
    if "cmatfcty" in ps:
        nm = str(g.choice(["DenseMolecularCoancestryMatrixFactory", "DenseVanRadenCoancestryMatrixFactory"]))
        kw["cmatfcty"] = getattr(importlib.import_module("pybrops.popgen.cmat.fcty." + nm), nm)()
    if "nhaploblk" in ps: kw["nhaploblk"] = nchr + int(g.integers(0, 3))      # at least one block per chromosome
    if "nbestfndr" in ps: kw["nbestfndr"] = int(g.integers(1, 3))
    if "unique_parents" in ps: kw["unique_parents"] = bool(g.random() < 0.5)
    if "nself" in ps: kw["nself"] = int(g.integers(0, 2))
    if "upper_percentile" in ps: kw["upper_percentile"] = float(g.choice([0.05, 0.1, 0.25]))
    if "vmatfcty" in ps:
        from pybrops.model.vmat.fcty.DenseTwoWayDHAdditiveGeneticVarianceMatrixFactory import DenseTwoWayDHAdditiveGeneticVarianceMatrixFactory
        kw["vmatfcty"] = DenseTwoWayDHAdditiveGeneticVarianceMatrixFactory()
    if "gmapfn" in ps:
        from pybrops.popgen.gmap.HaldaneMapFunction import HaldaneMapFunction
        kw["gmapfn"] = HaldaneMapFunction()
    if "nrep" in ps: kw["nrep"] = int(g.integers(1, 3))
    if "mateprot" in ps:
        from pybrops.breed.prot.mate.TwoWayDHCross import TwoWayDHCross
        kw["mateprot"] = TwoWayDHCross()
    if "weight" in ps:
        W = importlib.import_module("pybrops.breed.prot.sel.weightfn")
        kw["weight"] = getattr(W, str(g.choice(["weight_absolute", "weight_one"])))
    if "target" in ps:
        T = importlib.import_module("pybrops.breed.prot.sel.targetfn")
        kw["target"] = getattr(T, str(g.choice(["target_positive", "target_negative", "target_stabilizing"])))
    return kw


def show_kwargs(kw):
    return {k: (v if isinstance(v, (int, float, bool, str)) else getattr(v, "__name__", type(v).__name__)) for k, v in kw.items()}


def design_params(g, ncross):
    """scalar or per-cross array nmating / nprogeny."""
    out = []
    for _ in range(2):
        if g.random() < 0.5:
            out.append(int(g.integers(1, 6)))
        else:
            out.append(g.integers(1, 6, ncross).astype(g.choice(["int64", "int32"])))
    return out


# ---------------------------------------------------------------- decisions
def hostile_decision(g, enc, nopt, k, upper=None):
    """(class, decision vector) for the non-subset encodings; at least one positive entry."""
    if enc == "Real":
        cls = str(g.choice(["dirichlet", "sparse", "one-hot", "equal", "magnitudes", "dominant", "dyadic"]))
        if cls == "dirichlet":
            x = g.dirichlet(numpy.ones(nopt))
        elif cls == "sparse":
            x = g.uniform(0, 1, nopt) * (g.random(nopt) < 0.3)
        elif cls == "one-hot":
            x = numpy.zeros(nopt); x[int(g.integers(nopt))] = float(g.choice([1.0, 1e-9, 0.3]))
        elif cls == "equal":
            x = numpy.full(nopt, float(g.choice([1.0, 0.1, 1.0 / 3.0])))
        elif cls == "magnitudes":
            x = 10.0 ** g.uniform(-9, 0, nopt)
        elif cls == "dominant":
            x = g.uniform(0, 0.05, nopt); x[int(g.integers(nopt))] = 1.0
        else:
            x = g.integers(0, 5, nopt) / 8.0
        if not (x > 0).any():
            x[int(g.integers(nopt))] = 0.5
        return cls, x.astype(float)
    if enc == "Integer":
        up = int(upper) if upper is not None else max(3, k)
        cls = str(g.choice(["small", "one-hot", "one-large", "all-ones", "total<slots", "total==slots", "total>slots"]))
        if cls == "small":
            x = g.integers(0, min(up, 3) + 1, nopt)
        elif cls == "one-hot":
            x = numpy.zeros(nopt, dtype=int); x[int(g.integers(nopt))] = 1
        elif cls == "one-large":
            x = g.integers(0, 2, nopt); x[int(g.integers(nopt))] = up
        elif cls == "all-ones":
            x = numpy.ones(nopt, dtype=int)
        else:
            tot = {"total<slots": max(1, k // 2), "total==slots": k, "total>slots": 2 * k + 1}[cls]
            x = numpy.minimum(numpy.bincount(g.integers(0, nopt, tot), minlength=nopt), up)
        if not (x > 0).any():
            x[int(g.integers(nopt))] = 1
        return cls, x.astype(g.choice(["int64", "int32"]))
    cls = str(g.choice(["random", "one-hot", "all-ones", "few"]))
    if cls == "random":
        x = (g.random(nopt) < 0.5).astype(int)
    elif cls == "one-hot":
        x = numpy.zeros(nopt, dtype=int); x[int(g.integers(nopt))] = 1
    elif cls == "all-ones":
        x = numpy.ones(nopt, dtype=int)
    else:
        x = (g.random(nopt) < 0.15).astype(int)
    if not (x > 0).any():
        x[int(g.integers(nopt))] = 1
    return cls, x.astype("int64")


# ---------------------------------------------------------------- the configuration monitor (clauses 1-4)
def check_config(ctx, cfg, enc, mate, req, icls, coords, w, pgmat, xmap=None, unique=None, label="constructed", dsite=None):
    """Final-state clauses on one sampled configuration.  ``req`` = requested (ncross, nparent, nmating, nprogeny)."""
    cls = type(cfg)
    site = defsite(cls, "sample_xconfig")
    ncross, nparent, nmating, nprogeny = req
    x = cfg.xconfig
    decn = numpy.asarray(cfg.xconfig_decn)
    w = dict(w, xconfig=x, xconfig_decn=decn, stage=label)
    ntaxa = pgmat.ntaxa
    ok = isinstance(x, numpy.ndarray) and x.dtype.kind in "iu" and x.shape == (ncross, nparent)
    ok = ctx.check("C07.shape", ok, site, "xconfig is an integer (ncross, nparent) array", icls, witness=w, coords=coords)
    if not ok:
        return
    ctx.check("C07.shape", bool(numpy.all(x >= 0) and numpy.all(x < ntaxa)) and cfg.pgmat is pgmat, site,
              "entries index the passed population", icls, witness=dict(w, ntaxa=ntaxa), coords=coords)
    exp_m = numpy.repeat(nmating, ncross) if numpy.ndim(nmating) == 0 else numpy.asarray(nmating)
    exp_p = numpy.repeat(nprogeny, ncross) if numpy.ndim(nprogeny) == 0 else numpy.asarray(nprogeny)
    ctx.check("C07.shape", cfg.ncross == ncross and cfg.nparent == nparent and numpy.array_equal(cfg.nmating, exp_m)
              and numpy.array_equal(cfg.nprogeny, exp_p), dsite or defsite(cls, "__init__"), "ncross/nparent/nmating/nprogeny as requested", icls,
              witness=dict(w, nmating=cfg.nmating, nprogeny=cfg.nprogeny, requested=[nmating, nprogeny]), coords=coords)
    if not bool(numpy.any(decn > 0)) and enc != "Subset":
        ctx.sumnote("configurations from an all-zero decision (no share defined)")
        return
    members = R.members_of(enc, decn)
    if mate:
        xm = numpy.asarray(xmap)
        index = {}
        for i, r in enumerate(xm.tolist()):
            index.setdefault(tuple(r), []).append(i)
        rows = [tuple(r) for r in x.tolist()]
        opts = [[i for i in index.get(r, []) if i in members] for r in rows]
        ctx.check("C07.member", all(len(o) > 0 for o in opts), site, "every row is a candidate cross of the chosen solution", icls,
                  witness=dict(w, xmap=xm), coords=coords)
        if unique is True:
            ctx.check("C07.xmap", R.self_pairings(x) == 0, site, "no self-pairing when unique parents are requested", icls,
                      witness=dict(w, xmap=xm), coords=coords)
        if not all(len(o) == 1 for o in opts):   # a row that is no candidate / ambiguous map: usage per option undefined
            return
        used = [o[0] for o in opts]
        k = ncross
    else:
        used = x.ravel().tolist()
        ctx.check("C07.member", set(used) <= members, site, "every entry is an individual of the chosen solution", icls, witness=w, coords=coords)
        k = ncross * nparent
    cnt = {}
    for v in used:
        cnt[v] = cnt.get(v, 0) + 1
    bounds = R.usage_bounds(enc, decn, k)
    bad = [(v, cnt.get(v, 0), b) for v, b in bounds.items() if not (b[0] <= cnt.get(v, 0) <= b[1])]
    rel = {"Subset": "members used evenly (tiled share)", "Real": "usage in {floor, ceil} of the proportional share",
           "Integer": "usage within the tiled share of the count", "Binary": "usage within the tiled share of the count"}[enc]
    ctx.check("C07.multiplicity", not bad and sum(cnt.values()) == k, site, rel, icls, witness=dict(w, offending=bad[:5], slots=k), coords=coords)
    if enc == "Real":
        pf = numpy.asarray(decn, dtype=float)
        e = pf / pf.sum() * k
        ctx.maxnote("real share: largest |count - share|", max(abs(cnt.get(i, 0) - e[i]) for i in range(len(e))))
    if not mate:
        ex = R.improving_exchange(x)
        ctx.check("C07.outcross", ex is None, site, "no single exchange lowers the self-pairing count", icls,
                  witness=dict(w, exchange=ex, self_pairings=R.self_pairings(x)), coords=coords)
        ctx.sumnote("self-pairings left (unavoidable)", R.self_pairings(x))


# ---------------------------------------------------------------- family 1: configurations built directly
def case_cfg(ctx, c):
    install(ctx)
    g = ctx.rng("cfg", c)
    kind = CFG_CLASSES[c % len(CFG_CLASSES)]
    mate = kind.endswith("Mate")
    enc = kind.replace("Mate", "")
    cls = getattr(importlib.import_module("pybrops.breed.prot.sel.cfg.%sSelectionConfiguration" % kind), "%sSelectionConfiguration" % kind)
    ncross = int(g.integers(1, 13)) if g.random() < 0.25 else int(g.integers(1, 6))
    nparent = int(g.choice([1, 2, 2, 2, 3, 4]))
    n = int(g.integers(max(2, nparent), 15))
    pg = _STATE.get(("pg", n))
    if pg is None:
        pg = build_world(draw_arrays(numpy.random.Generator(numpy.random.PCG64(n)), n, 6, 1))["pg"]
        _STATE[("pg", n)] = pg
    nmating, nprogeny = design_params(g, ncross)
    xmap = None; unique = None
    if mate:
        unique = bool(g.random() < 0.5)
        rows = sorted(R.enumerate_xmap(n, nparent, unique))
        if len(rows) > 40:
            rows = [rows[i] for i in sorted(g.choice(len(rows), 40, replace=False).tolist())]
        xmap = numpy.array(rows, dtype="int64")
        if g.random() < 0.3:
            xmap = xmap[g.permutation(len(xmap))]
        nopt, k = len(xmap), ncross
    else:
        nopt, k = n, ncross * nparent
    if enc == "Subset":
        dcls = str(g.choice(["size==slots", "size divides slots", "size<slots", "size>slots", "single member", "repeated member"]))
        if dcls == "size==slots":
            sz = min(k, nopt)
        elif dcls == "size divides slots":
            divs = [d for d in range(1, min(k, nopt) + 1) if k % d == 0]; sz = int(g.choice(divs))
        elif dcls == "size<slots":
            sz = int(g.integers(1, min(k, nopt) + 1))
        elif dcls == "size>slots":
            sz = int(g.integers(min(k, nopt), nopt + 1))
        elif dcls == "single member":
            sz = 1
        else:
            sz = int(g.integers(2, max(3, min(k, nopt) + 1)))
        decn = g.choice(nopt, min(sz, nopt), replace=False).astype(g.choice(["int64", "int32"]))
        if dcls == "repeated member" and len(decn) >= 2:
            decn[1] = decn[0]
        if g.random() < 0.5:
            decn = numpy.sort(decn)
    else:
        dcls, decn = hostile_decision(g, enc, nopt, k)
        if enc == "Binary" and g.random() < 0.3:
            decn = decn.astype(bool); dcls += "/bool"
    rname, rng = mkrng(g)
    # coarse input class (mechanism level): encoding, plus the two hostile classes that are mechanisms of their own
    icls = "%s encoding%s" % (enc, " (mate)" if mate else "") + ("/repeated member" if dcls == "repeated member" else "") + \
        ("/" + rname if rname.startswith("crafted") and enc == "Real" else "")
    coords = [c, "cfg"]
    ctx.case("cfg:%s/%s/%s" % (kind, dcls, "crafted" if rname.startswith("crafted") else "seeded"), kind, decn, ncross, nparent, rname,
             None if xmap is None else xmap, trivial=(k < 2 and nopt < 2))
    w = {"class": cls.__name__, "ncross": ncross, "nparent": nparent, "nmating": nmating, "nprogeny": nprogeny, "ntaxa": n, "rng": rname,
         "decision": decn, "xmap": xmap}
    if c % 401 == 0:
        ctx.sample({"family": "cfg", "class": cls.__name__, "ncross": ncross, "nparent": nparent, "decision": decn.tolist(), "rng": rname,
                    "decision_class": dcls})
    args = dict(ncross=ncross, nparent=nparent, nmating=nmating, nprogeny=nprogeny, pgmat=pg, xconfig_decn=decn.copy(), rng=rng)
    if mate:
        args["xconfig_xmap"] = xmap
    try:
        with watching("called from a selection configuration", coords):
            cfg = cls(**args)
    except Exception as e:
        ctx.raised("%s(...): %s" % (cls.__name__, type(e).__name__), e)
        return
    check_config(ctx, cfg, enc, mate, (ncross, nparent, nmating, nprogeny), icls, coords, w, pg, xmap, unique, "constructed")
    ctx.check("C07.solution", numpy.array_equal(cfg.xconfig_decn, decn), defsite(cls, "__init__"), "decision stored unchanged", icls,
              witness=w, coords=coords)
    try:
        with watching("called from a selection configuration", coords):
            out = cfg.sample_xconfig(return_xconfig=True)
    except Exception as e:
        ctx.raised("%s.sample_xconfig: %s" % (cls.__name__, type(e).__name__), e)
        return
    ctx.check("C07.shape", out is cfg.xconfig or numpy.array_equal(out, cfg.xconfig), defsite(cls, "sample_xconfig"),
              "returned array is the stored configuration", icls, witness=w, coords=coords)
    check_config(ctx, cfg, enc, mate, (ncross, nparent, nmating, nprogeny), icls, coords, w, pg, xmap, unique, "re-sampled")


# ---------------------------------------------------------------- family 2: protocol.select()
def subset_size_class(n, ndecn):
    return "all candidates selected" if ndecn >= n else "proper subset"


def make_chooser(g, enc, kind, k, decisions):
    """Chooser for the plug-in; ``decisions`` collects what was prescribed."""
    def random_decision(prob):
        if enc == "Subset":
            x = g.choice(numpy.asarray(prob.decn_space), int(prob.ndecn), replace=False)
            return "random subset", (numpy.sort(x) if g.random() < 0.5 else x)
        up = numpy.max(numpy.asarray(prob.decn_space_upper)) if enc == "Integer" else None
        return hostile_decision(g, enc, int(prob.ndecn), k, up)

    def chooser(prob, info):
        if kind == "exact":
            X = R.exact_subset(prob, info)
            decisions.append(("exact/" + info["method"], X))
            return X
        if kind in ("front", "list"):
            cand = [random_decision(prob)[1] for _ in range(int(g.integers(1, 9)) if kind == "front" else int(g.integers(2, 11)))]
            if g.random() < 0.3:
                cand.append(cand[0].copy())           # duplicate member -> tie in every preference score
            ev = [prob.evalfn(x) for x in cand]
            F = [numpy.asarray(e[0], dtype=float) for e in ev]
            # "front": objective-non-dominated members in the order generated (feasible and infeasible members stay mixed);
            # "list": the deterministic candidate list as it is (any order of feasible / infeasible / dominated members)
            keep = R.nondominated(F) if kind == "front" else list(range(len(cand)))
            X = numpy.stack([cand[i] for i in keep])
            cv = [float(numpy.sum(ev[i][1])) + float(numpy.sum(ev[i][2])) for i in keep]
            info["nfeasible"] = sum(1 for v in cv if v <= 0.0); info["npoints"] = len(keep)
            decisions.append(("%s of %d" % (kind, len(keep)), X))
            return X
        dcls, x = random_decision(prob)
        decisions.append((dcls, x))
        return numpy.stack([x])
    return chooser


def ga(enc, multi, g, tier="quick"):
    nm = (GA_MO if multi else GA_SO)[enc]
    cls = getattr(importlib.import_module("pybrops.opt.algo." + nm), nm)
    ngen = int(g.integers(2, 16)); pop = int(g.choice([8, 12, 16, 24]))
    if tier == "quick":
        ngen = min(ngen, 6); pop = min(pop, 12)
    return cls(ngen=ngen, pop_size=pop)


def run_select(sel, W, miscout, built=None):
    if built is not None:        # record every problem object the protocol builds (instance attribute shadows the method)
        orig = sel.problem

        def recording_problem(*a, **k):
            p = orig(*a, **k)
            built.append(p)
            return p
        sel.problem = recording_problem
    return sel.select(pgmat=W["pg"], gmat=W["gm"], ptdf=None, bvmat=W["bv"], gpmod=W["mod"], t_cur=0, t_max=10, miscout=miscout)


def chosen_crosses(decn, xmap):
    return sorted(tuple(sorted(r)) for r in numpy.asarray(xmap)[numpy.asarray(decn)].tolist())


def case_sel(ctx, c):
    install(ctx)
    g = ctx.rng("sel", c)
    P = protocols()
    name, cls, enc, mate, fam = P[c % len(P)]
    twoway = fam in ("UsefulnessCriterion", "ExpectedMaximumBreedingValue")
    nparent = 2 if twoway else int(g.choice([1, 2, 2, 2, 3, 4]))      # the two-way variance / mating factories need two parents
    if mate and not twoway:
        nparent = int(g.choice([1, 2, 3, 4]))                         # cross-level protocols: every cross arity equally often
    ncross = int(g.integers(1, 13)) if g.random() < 0.25 else int(g.integers(1, 6))
    if mate:
        n = int(g.integers(max(2, nparent + 1), 8))
        if enc == "Subset":
            ncross = min(ncross, R.ncomb(n, nparent))                 # a subset of crosses needs that many candidates
    k = ncross * nparent
    if mate:
        pass
    elif enc == "Subset":
        n = k + int(g.choice([0, 0, 1, 2, 3, 5, 8]))
    else:
        n = int(g.integers(2, 13))
    n = max(n, 2)
    m = int(g.integers(6, 15)); t = int(g.integers(1, 4))
    ranked = enc == "Subset" and (fam in INDEPENDENT or fam in OWN_CRITERION)     # truncation-type: mostly exact optimisers
    nobj = 2 if g.random() < (0.15 if ranked else 0.3) else 1
    bvcls = str(g.choice(["gauss", "gauss", "ties", "duplicates"]))
    A = draw_arrays(g, n, m, t, bvcls, polymorphic=fam in INDEPENDENT[2:])
    unphased = [True, None, False][int(g.choice([0, 0, 0, 1, 1, 1, 2, 2, 2, 2]))]
    W = build_world(A, unphased=unphased)
    kw = extra_kwargs(g, cls, t, m, A["nchr"])
    nmating, nprogeny = design_params(g, ncross)
    # optimiser
    decisions = []
    if nobj == 1:
        kinds = ["exact"] * 4 + ["sorting"] * 3 + ["random"] * 2 + ["ga"] if enc == "Subset" else ["prescribed"] * 8 + ["ga"]
        if ranked:
            kinds = ["exact"] * 5 + ["sorting"] * 4 + ["ga"]
    else:
        kinds = ["front"] * 3 + ["list"] * 2 + ["ga"] * 2       # ga = the protocols' real default multi-objective optimiser classes
    kind = str(g.choice(kinds))
    if kind == "sorting":
        from pybrops.opt.algo.SortingSubsetOptimizationAlgorithm import SortingSubsetOptimizationAlgorithm
        algo = SortingSubsetOptimizationAlgorithm()
    elif kind == "ga":
        algo = ga(enc, nobj > 1, g, ctx.tier)
    else:
        algo = R.plugin(enc, make_chooser(g, enc, kind, k, decisions))
    idle = R.plugin(enc, make_chooser(g, enc, "random", k, []))
    wsign = -1.0 if g.random() < 0.15 else 1.0
    objwt = numpy.repeat(wsign, nobj)
    if nobj > 1:      # every encoding family: mixed signs and non-unit magnitudes (the solution's objectives are the weighted ones)
        objwt = g.choice([1.0, -1.0, 2.5, -0.5, 0.25, -3.0], nobj)
        if g.random() < 0.5 and (numpy.all(objwt > 0) or numpy.all(objwt < 0)):
            objwt[int(g.integers(nobj))] *= -1.0
    trans = R.LinTrans(nobj, int(g.integers(2 ** 31)), mode=str(g.choice(["pick", "index"])))
    ndname = str(g.choice(list(R.NDTRANS) + ["library default"]))
    ndwt = float(g.choice([1.0, -1.0, 2.5, -0.5]))
    pk = dict(ncross=ncross, nparent=nparent, nmating=nmating, nprogeny=nprogeny, nobj=nobj, obj_wt=objwt.copy(), obj_trans=trans,
              ndset_wt=ndwt, soalgo=(algo if nobj == 1 else idle), moalgo=(algo if nobj > 1 else idle))
    if ndname != "library default":
        pk["ndset_trans"] = R.NDTRANS[ndname]; pk["ndset_trans_kwargs"] = {}
    # constraints: every multi-objective family half of the time, single-objective runs whose optimiser does not rank
    ncons = (0, 0)
    if (nobj > 1 and g.random() < 0.5) or (nobj == 1 and kind in ("random", "prescribed") and g.random() < 0.25):
        ncons = [(1, 0), (2, 0), (1, 1), (0, 1)][int(g.integers(4))]
        cseed = int(g.integers(2 ** 31)); level = float(g.choice([0.3, 0.5, 0.7]))
        if ncons[0]:
            pk.update(nineqcv=ncons[0], ineqcv_wt=g.choice([1.0, 2.0, 0.5], ncons[0]), ineqcv_trans=R.ConsTrans(ncons[0], cseed, level))
        if ncons[1]:
            pk.update(neqcv=ncons[1], eqcv_wt=g.choice([1.0, 3.0], ncons[1]), eqcv_trans=R.ConsTrans(ncons[1], cseed + 3, level, equality=True))
    seed = int(g.integers(2 ** 31))
    from pybrops.core.random import prng
    prng.seed(seed); numpy.random.seed(seed)
    coords = [c, "sel"]
    optcls = {"exact": "exact plug-in", "sorting": "repo sorting optimiser", "random": "arbitrary feasible plug-in", "prescribed": "prescribed decision",
              "front": "front plug-in", "list": "candidate-list plug-in", "ga": "short GA"}[kind]
    ctx.case("sel:%s/%s/%s" % (name, optcls, "2 objectives" if nobj > 1 else "1 objective"), name, A["mat"], A["raw"], A["u"], ncross, nparent,
             seed, kind, trivial=(k < 2 and n < 3))
    w = {"protocol": name, "kwargs": show_kwargs(kw), "ncross": ncross, "nparent": nparent, "nmating": nmating, "nprogeny": nprogeny, "ntaxa": n,
         "nobj": nobj, "obj_wt": objwt, "optimiser": optcls, "gmat": {True: "unphased", None: "phased copy", False: "same object as pgmat"}[unphased], "raw_bv": A["raw"], "seed": seed,
         "ndset": [ndwt, ndname], "constraints": {"nineqcv": ncons[0], "neqcv": ncons[1]}}
    if c % 173 == 0:
        ctx.sample({"family": "sel", "protocol": name, "optimiser": optcls, "ncross": ncross, "nparent": nparent, "ntaxa": n, "nmarkers": m,
                    "ntrait": t, "nobj": nobj, "kwargs": show_kwargs(kw), "bv_class": bvcls, "gmat": w["gmat"]})
    label = "%s [%s]" % (name, optcls)
    try:
        sel = cls(**pk, **kw)
    except Exception as e:
        ctx.raised("%s(...)" % name, e)
        return
    miscout = {}
    built = []
    # ---- re-entrant user callbacks (a fifth of the runs, every family): one of the transformations calls back into this very
    # protocol (solve / select for a reference population, build another problem, evaluate another candidate) before it returns
    # exactly what the plain transformation returns
    reent = None
    if g.random() < 0.2:
        which = str(g.choice((["ndset", "ndset", "obj"] if nobj > 1 else ["obj"]) + (["cons"] if sum(ncons) else [])))
        action = str(g.choice(["solve", "select", "problem+evalfn", "evalfn"]))
        gr = ctx.rng("sel-reference", c)
        nref = n + int(gr.integers(0, 4))              # same size or larger reference population
        Aref = draw_arrays(gr, nref, m, t, "gauss", polymorphic=fam in INDEPENDENT[2:])
        for key in ("chrgrp", "phypos", "genpos", "xoprob", "vname", "u", "beta", "trait", "nchr"):
            Aref[key] = A[key]                      # same marker panel and model, other individuals
        Wref = build_world(Aref, unphased=unphased)
        Wref["mod"] = W["mod"]
        attr = {"ndset": "ndset_trans", "obj": "obj_trans", "cons": "ineqcv_trans" if ncons[0] else "eqcv_trans"}[which]
        reent = R.Reentrant(getattr(sel, attr), budget=1)
        args = dict(pgmat=Wref["pg"], gmat=Wref["gm"], ptdf=None, bvmat=Wref["bv"], gpmod=Wref["mod"], t_cur=0, t_max=10)

        def act():
            if action == "solve":
                (sel.sosolve if nobj == 1 else sel.mosolve)(miscout=None, **args)
            elif action == "select":
                sel.select(miscout={}, **args)
            else:
                p = sel.problem(**args) if action == "problem+evalfn" or not built else built[0]
                ds = numpy.asarray(p.decn_space)
                p.evalfn(ds[: int(p.ndecn)].copy() if enc == "Subset" else numpy.asarray(p.decn_space_upper).copy())
        reent.action = act
        try:
            setattr(sel, attr, reent)
        except Exception as e:
            ctx.raised("install re-entrant %s" % attr, e)
            reent = None
        if reent is not None:
            w["reentrant_callback"] = {"callback": attr, "calls_back_into": action, "reference_ntaxa": nref}
    try:
        with watching("called from a selection configuration", coords):
            cfg = run_select(sel, W, miscout, built)
    except Exception as e:
        if reent is not None and reent.reentries > 0 and kind != "ga" and fam not in NOT_EQUIVARIANT:
            # equivalence: the same call with a plain callback (same numbers from a separate object) must fail as well.  Only for
            # deterministic set-ups: a short GA may or may not find a feasible point (it raises when it does not), and the random /
            # simulated criteria differ between two runs
            try:
                g2 = ctx.rng("sel-plain", c)
                if kind == "sorting":
                    algo2 = type(algo)()
                elif kind == "ga":
                    algo2 = ga(enc, nobj > 1, g2, ctx.tier)
                else:
                    algo2 = R.plugin(enc, make_chooser(g2, enc, kind, k, []))
                pk2 = dict(pk); pk2["soalgo" if nobj == 1 else "moalgo"] = algo2
                cls(**pk2, **kw).select(pgmat=W["pg"], gmat=W["gm"], ptdf=None, bvmat=W["bv"], gpmod=W["mod"], t_cur=0, t_max=10, miscout={})
                plain_ok = True
            except Exception:
                plain_ok = False
            ctx.check("C07.reentrant", not plain_ok, defsite(cls, "select"), "raises only when a callback re-enters the protocol",
                      "%s encoding%s/%s calls back" % (enc, " (mate)" if mate else "", w["reentrant_callback"]["callback"]),
                      what="%s.select raised %s: %s with a re-entrant %s, succeeds with the plain one" % (
                          name, type(e).__name__, str(e)[:100], w["reentrant_callback"]["callback"]), witness=w, coords=coords)
            if plain_ok:
                return
        ctx.raised("%s.select%s: %s" % (name, " [short GA]" if kind == "ga" else "", type(e).__name__), e)
        return
    if kind not in ("sorting", "ga"):
        ctx.hook("plug-in optimiser called by protocol", algo.calls)
    ctx.sumnote("selects completed")
    icls = "%s encoding%s" % (enc, " (mate)" if mate else "")
    decn = numpy.asarray(cfg.xconfig_decn)
    w = dict(w, decision_class=[d[0] for d in decisions][:3])
    solkey = "sosoln" if nobj == 1 else "mosoln"
    soln = miscout.get(solkey)
    xmap = getattr(soln, "decn_space_xmap", None) if mate else None
    unique = kw.get("unique_parents") if mate else None
    ssite = defsite(cls, "select")
    # clause: the configuration carries the optimiser's solution
    ok = ctx.check("C07.solution", soln is not None and len(numpy.asarray(soln.soln_decn)) >= 1, ssite, "miscout carries the solution object",
                   icls, witness=w, coords=coords)
    if not ok:
        return
    SD = numpy.asarray(soln.soln_decn)
    if reent is not None:
        ctx.hook("select runs whose callback re-entered the protocol", int(reent.reentries > 0))
        ctx.sumnote("nested calls made by re-entrant callbacks that raised", len(reent.errors))
        if reent.reentries > 0:
            rcls = "%s/%s calls back" % (icls, w["reentrant_callback"]["callback"])
            if built:
                p0 = built[0]
                ctx.check("C07.reentrant", SD.ndim == 2 and SD.shape[1] == int(p0.ndecn) and
                          numpy.array_equal(numpy.asarray(soln.decn_space), numpy.asarray(p0.decn_space)), ssite,
                          "returned solution describes the problem built for this call, not one of a nested call", rcls,
                          witness=dict(w, soln_decn=SD, outer_ndecn=int(p0.ndecn), outer_decn_space=p0.decn_space), coords=coords)
            if kind not in ("sorting", "ga") and algo.history and algo.history[0] is not None:
                ctx.check("C07.reentrant", numpy.array_equal(SD, algo.history[0][0]) and
                          numpy.array_equal(numpy.asarray(soln.soln_obj, dtype=float), algo.history[0][1]), ssite,
                          "returned solution is what the optimiser returned for this call, not for a nested call", rcls,
                          witness=dict(w, soln_decn=SD, optimiser_first_return=algo.history[0][0], optimiser_calls=len(algo.history)),
                          coords=coords)
    if nobj == 1:
        ctx.check("C07.solution", numpy.array_equal(decn, SD[0]) and (kind in ("sorting", "ga") or numpy.array_equal(SD, algo.X)), ssite,
                  "configuration decision is the optimiser's solution", icls, witness=dict(w, soln_decn=SD, xconfig_decn=decn), coords=coords)
    if mate:
        ok = ctx.check("C07.xmap", xmap is not None and numpy.asarray(xmap).ndim == 2 and numpy.asarray(xmap).shape[1] == nparent, defsite(cls, "problem"),
                       "solution carries an (ncandidates, nparent) cross map", icls, witness=w, coords=coords)
        if not ok:
            return
        rows = [tuple(sorted(r)) for r in numpy.asarray(xmap).tolist()]
        exp = R.enumerate_xmap(n, nparent, bool(unique))
        ctx.check("C07.xmap", len(rows) == len(set(rows)) and set(rows) == exp, defsite(cls, "problem"),
                  "cross map enumerates exactly the admissible parent combinations", icls + ("/unique parents" if unique else "/selfing allowed"),
                  witness=dict(w, xmap=xmap, unique_parents=unique), coords=coords)
        # the decision space must address every row of the cross map (and nothing else)
        ds = numpy.asarray(soln.decn_space)
        if enc == "Subset":
            cover = ds.ndim == 1 and sorted(ds.tolist()) == list(range(len(rows)))
        else:
            cover = int(soln.ndecn) == len(rows) and ds.ndim == 2 and ds.shape[1] == len(rows)
        ctx.check("C07.xmap", cover, defsite(cls, "problem"), "decision space addresses every candidate cross of the map",
                  icls + ("/unique parents" if unique else "/selfing allowed"),
                  witness=dict(w, ncandidates=len(rows), ndecn=int(soln.ndecn), decn_space_shape=list(ds.shape),
                               decn_space_head=ds.ravel()[:8], unique_parents=unique), coords=coords)
    check_config(ctx, cfg, enc, mate, (ncross, nparent, nmating, nprogeny), icls, coords, w, W["pg"], xmap, unique, "select", dsite=ssite)
    # ---- truncation
    if nobj == 1 and enc == "Subset" and kind in ("exact", "sorting"):
        truncation(ctx, sel, cls, name, fam, mate, A, W, kw, trans, wsign, decn, xmap, kind, icls, coords, w)
    # ---- multi-objective choice
    if nobj > 1:
        F = numpy.asarray(soln.soln_obj, dtype=float)
        try:
            ndfn = getattr(sel.ndset_trans, "plain", sel.ndset_trans)     # the declared numbers, without calling back into the protocol
            score = numpy.asarray(sel.ndset_wt * ndfn(F.copy(), **sel.ndset_trans_kwargs), dtype=float)
        except Exception as e:
            ctx.raised("ndset_trans recomputation", e)
            return
        if not numpy.all(numpy.isfinite(score)):
            ctx.sumnote("fronts with a non-finite preference score (maximiser undefined)")
            return
        best = score.max()
        hits = [i for i in range(len(SD)) if numpy.array_equal(SD[i], decn)]
        tcls = "%s preference, weight %s" % ("library default" if ndname == "library default" else "harness", "> 0" if ndwt > 0 else "< 0")
        wcls = icls + ("/negative objective weight" if numpy.any(objwt < 0) else "") + ("/constrained" if sum(ncons) else "")
        if sum(ncons) and kind in ("front", "list"):
            nf, npt = algo.info.get("nfeasible", 0), algo.info.get("npoints", 0)
            ctx.hook("constrained front mixing feasible and infeasible points", int(0 < nf < npt))
            G_ = numpy.asarray(soln.soln_ineqcv, dtype=float).reshape(len(SD), -1).sum(1) + numpy.asarray(soln.soln_eqcv, dtype=float).reshape(len(SD), -1).sum(1)
            ctx.sumnote("constrained fronts whose preferred point follows an infeasible one",
                        int(bool(numpy.any(G_[: int(numpy.argmax(score))] > 0))))
        ctx.sumnote("fronts under mixed-sign objective weights", int(numpy.any(objwt < 0) and numpy.any(objwt > 0)))
        ctx.check("C07.mo", any(score[i] == best for i in hits), ssite, "decision maximises ndset_wt*ndset_trans over the returned front",
                  wcls, witness=dict(w, preference=tcls, front_obj=F, front_decn=SD, score=score, chosen=decn, chosen_index=hits), coords=coords)
        # independent route: evaluate every returned decision afresh with the problem the protocol built and require the configuration
        # to come from a maximiser of the declared preference over those objectives (does not trust soln_obj nor its row order)
        if built:
            try:
                # built[0] is the problem of THIS call (problems built by nested, re-entrant calls come later)
                F2 = numpy.stack([numpy.asarray(built[0].evalfn(numpy.asarray(x))[0], dtype=float) for x in SD])
                score2 = numpy.asarray(sel.ndset_wt * ndfn(F2.copy(), **sel.ndset_trans_kwargs), dtype=float)
            except Exception as e:
                ctx.raised("fresh evaluation of the returned front", e)
                score2 = None
            if score2 is not None and numpy.all(numpy.isfinite(score2)):
                truthful = F2.shape == F.shape and bool(numpy.allclose(F2, F, rtol=1e-9, atol=1e-12))
                osite = ssite if truthful else type(algo).__name__ + ".minimize"
                tol2 = 1e-9 * (1.0 + float(numpy.max(numpy.abs(score2))))
                ctx.check("C07.mo", any(score2[i] >= score2.max() - tol2 for i in hits), osite,
                          "decision maximises the declared preference over freshly evaluated objectives of the returned decisions"
                          + ("" if truthful else " (reported objectives differ from a fresh evaluation)"), wcls,
                          witness=dict(w, preference=tcls, reported_obj=F, fresh_obj=F2, front_decn=SD, fresh_score=score2, chosen=decn,
                                       chosen_index=hits), coords=coords)
                ctx.hook("fronts re-evaluated: real multi-objective optimiser", int(kind == "ga"))
                ctx.sumnote("re-evaluated GA fronts with a repeated objective vector", int(kind == "ga" and len({tuple(r) for r in F2.tolist()}) < len(F2)))
        ctx.sumnote("fronts with more than one point", int(len(SD) > 1))
        ctx.sumnote("fronts where argmax != argmin", int(score.max() != score.min()))
        dom = set(range(len(F))) - set(R.nondominated(F))
        if hits and kind == "front":
            ctx.check("C07.mo", not all(i in dom for i in hits), ssite, "decision is a non-dominated member of the front", icls,
                      witness=dict(w, front_obj=F, chosen_index=hits), coords=coords)


def truncation(ctx, sel, cls, name, fam, mate, A, W, kw, trans, wsign, decn, xmap, kind, icls, coords, w):
    site = defsite(cls, "problem").split(".")[0] + ".select"
    opt = "exact plug-in" if kind == "exact" else "repo sorting optimiser"
    if fam in INDEPENDENT and not mate:
        C = criterion(fam, A, kw, W["gm_calls"])
        if kw.get("unscale") is False:
            # the protocol is asked to rank on standardised values: per trait (value - mean) / sd.  The divisor convention (n or n-1)
            # rescales every trait by the same factor and cannot change the order of a weighted index.
            sd = C.std(0)
            if not numpy.all(sd > 0):
                ctx.sumnote("truncation cases skipped: constant trait cannot be standardised")
                return
            C = (C - C.mean(0)) / sd
        Wm = trans.matrix(C.shape[1])
        s = wsign * (C @ Wm)[:, 0]                       # higher = better
        src = "independent criterion"
        chosen = sorted(numpy.asarray(decn).tolist())
        ids = list(range(len(s)))
    elif fam in OWN_CRITERION and mate:
        try:
            prob = sel.problem(pgmat=W["pg"], gmat=W["gm"], ptdf=None, bvmat=W["bv"], gpmod=W["mod"], t_cur=0, t_max=10)
            # every row of the candidate-cross map is a candidate, whether or not the decision space lists it
            ids = list(range(len(numpy.asarray(prob.decn_space_xmap))))
            s = -numpy.array([float(numpy.sum(prob.evalfn(numpy.array([e]))[0])) for e in ids])
        except Exception as e:
            ctx.raised("%s.problem (re-evaluation)" % name, e)
            return
        src = "problem's own evaluation of single crosses"
        ctx.hook("cross-level truncation with nparent >= 3 and selfing allowed", int(prob.decn_space_xmap.shape[1] >= 3 and not kw.get("unique_parents")))
        chosen = sorted(numpy.asarray(decn).tolist())
    else:
        return
    kk = len(chosen)
    if kk > len(ids) or len(set(chosen)) != kk or not set(chosen) <= set(ids):
        ctx.check("C07.truncation", False, site, "chosen candidates are distinct members of the candidate set", icls, witness=dict(w, chosen=chosen), coords=coords)
        return
    order = sorted(range(len(ids)), key=lambda i: -s[i])
    top = [ids[i] for i in order[:kk]]
    scale = float(numpy.max(numpy.abs(s))) if len(s) else 0.0
    tol = TOL * scale + 1e-12
    pos = {v: i for i, v in enumerate(ids)}
    got = sum(s[pos[v]] for v in chosen); want = sum(s[pos[v]] for v in top)
    tie = kk < len(ids) and abs(s[order[kk - 1]] - s[order[kk]]) <= 10 * tol
    near = any(abs(s[order[i]] - s[order[i + 1]]) <= 10 * tol for i in range(len(order) - 1))
    ctx.maxnote("truncation: |criterion(chosen) - criterion(best k)| / scale", abs(got - want) / (scale + 1e-300))
    tcls = "%s/%s" % (icls, opt)
    w = dict(w, criterion_source=src, objective_weight=wsign)
    if tie:
        ctx.check("C07.truncation", abs(got - want) <= kk * 10 * tol, site, "criterion total of the chosen equals that of the best k (tie at the cut)",
                  tcls, witness=dict(w, criterion=s, chosen=chosen, best=sorted(top)), coords=coords)
        ctx.sumnote("truncation cases with a tie at the cut")
    else:
        ctx.check("C07.truncation", sorted(top) == chosen, site, "chosen set is exactly the k best by the criterion", tcls,
                  witness=dict(w, criterion=s, chosen=chosen, best=sorted(top), other_ties=near), coords=coords)


# ---------------------------------------------------------------- family 3: equivariance
def case_equi(ctx, c):
    install(ctx)
    g = ctx.rng("equi", c)
    P = [p for p in protocols() if p[2] == "Subset" and p[4] not in NOT_EQUIVARIANT]
    name, cls, enc, mate, fam = P[c % len(P)]
    nparent = 2 if fam == "UsefulnessCriterion" else int(g.choice([1, 2, 2, 3]))
    ncross = int(g.integers(1, 4))
    k = ncross * nparent
    n = int(g.integers(max(3, nparent + 1), 7)) if mate else max(3, k + int(g.integers(1, 5)))
    if not mate and n > 10:
        n = 10
    big = fam == "OptimalHaploidValue" and g.random() < 0.3
    if big:      # candidate-cross maps longer than the problem's internal chunk size (1024 rows), not a multiple of it
        nparent = int(g.choice([2, 2, 3])); n = int(g.integers(47, 53)) if nparent == 2 else int(g.integers(20, 23))
        k = ncross * nparent
    m = int(g.integers(6, 13)); t = int(g.integers(1, 3))
    A = draw_arrays(g, n, m, t, "gauss", polymorphic=fam in INDEPENDENT[2:])
    unphased = [True, None, None, False][int(g.integers(4))]
    kw = extra_kwargs(g, cls, t, m, A["nchr"])
    if big:
        kw["unique_parents"] = True
        ctx.sumnote("equivariance cases with a cross map longer than 1024 rows")
    nmating, nprogeny = design_params(g, ncross)
    trans = R.LinTrans(1, int(g.integers(2 ** 31)), mode=str(g.choice(["pick", "index"])))
    perm = g.permutation(n)
    while n > 1 and numpy.array_equal(perm, numpy.arange(n)):
        perm = g.permutation(n)
    inv = numpy.argsort(perm)                 # old index -> new index
    coords = [c, "equi"]
    icls = "%s encoding%s" % (enc, " (mate)" if mate else "")
    separable = fam in INDEPENDENT or fam in OWN_CRITERION
    ctx.case("equi:%s" % name, name, A["mat"], A["raw"], A["u"], perm, ncross, nparent)
    w = {"protocol": name, "kwargs": show_kwargs(kw), "ncross": ncross, "nparent": nparent, "ntaxa": n, "perm": perm, "raw_bv": A["raw"],
         "gmat": {True: "unphased", None: "distinct phased object", False: "same object as pgmat"}[unphased]}
    if c % 97 == 0:
        ctx.sample({"family": "equi", "protocol": name, "ntaxa": n, "ncross": ncross, "nparent": nparent, "perm": perm.tolist(), "kwargs": show_kwargs(kw)})
    from pybrops.core.random import prng

    # decoy world: the inputs this family does not read carry different content (same individuals, same order)
    gd = ctx.rng("equi-decoy", c)
    uses = USES.get(fam)
    B = None
    if uses is not None:
        B = dict(A); swapped = []
        if "pgmat" not in uses and unphased is not False:
            B["mat"] = gd.integers(0, 2, A["mat"].shape).astype("int8"); swapped.append("pgmat")
        if "gmat" not in uses and unphased is not False:
            B["gmat"] = gd.integers(0, 2, A["mat"].shape).astype("int8"); swapped.append("gmat")
        if "bvmat" not in uses:
            B["raw"] = gd.normal(size=A["raw"].shape) * 2.0 + 1.0; swapped.append("bvmat")
        if "gpmod" not in uses:
            B["u"] = gd.normal(size=A["u"].shape); B["beta"] = gd.normal(size=A["beta"].shape); swapped.append("gpmod")
        w["decoy_inputs_replaced"] = swapped

    def run(variant, optimiser):
        Wd = build_world(B if variant == "decoy" else A, perm=(perm if variant == "permuted" else None), rename=(variant == "renamed"),
                         unphased=unphased)
        if optimiser == "exact":
            algo = R.plugin(enc, make_chooser(g, enc, "exact", k, []))
        else:
            from pybrops.opt.algo.SortingSubsetOptimizationAlgorithm import SortingSubsetOptimizationAlgorithm
            algo = SortingSubsetOptimizationAlgorithm()
        idle = R.plugin(enc, make_chooser(g, enc, "random", k, []))
        sel = cls(ncross=ncross, nparent=nparent, nmating=nmating, nprogeny=nprogeny, nobj=1, obj_wt=numpy.array([1.0]), obj_trans=trans,
                  soalgo=algo, moalgo=idle, **kw)
        prng.seed(12345); numpy.random.seed(12345)
        mo = {}
        with watching("called from a selection configuration", coords):
            cfg = run_select(sel, Wd, mo)
        if optimiser == "exact":
            ctx.hook("plug-in optimiser called by protocol", algo.calls)
        d = numpy.asarray(cfg.xconfig_decn)
        if mate:
            ch = chosen_crosses(d, mo["sosoln"].decn_space_xmap)
        else:
            ch = sorted(d.tolist())
        info = getattr(algo, "info", {})
        return ch, info, cfg

    def image(ch):
        if mate:
            return sorted(tuple(sorted(int(inv[a]) for a in cr)) for cr in ch)
        return sorted(int(inv[a]) for a in ch)

    try:
        base, info0, cfg0 = run("base", "exact")
    except Exception as e:
        ctx.raised("%s.select: %s" % (name, type(e).__name__), e)
        return
    # criteria built on a coancestry matrix carry a random diagonal jitter (<= 1e-6, amplified by the square root near zero)
    tol = (5e-3 if "cmatfcty" in kw or fam == "MeanExpectedHeterozygosity" else 1e-7) * (1.0 + info0.get("scale", 0.0))
    if not info0.get("margin", 0.0) > tol:
        ctx.sumnote("equivariance cases skipped: optimum not unique")
        return
    if info0.get("method") == "singleton-sort" and not separable:
        ctx.sumnote("equivariance cases skipped: search space too large for enumeration")
        return
    site = defsite(cls, "problem").split(".")[0] + ".select"
    for optimiser in (("exact", "sorting") if separable else ("exact",)):
        ocls = "exact plug-in" if optimiser == "exact" else "repo sorting optimiser"
        if optimiser == "exact":
            ref = base
        else:       # the sorting optimiser is compared with its own choice on the original population (its optimality is C07.truncation)
            try:
                ref = run("base", optimiser)[0]
            except Exception as e:
                ctx.raised("%s.select: %s" % (name, type(e).__name__), e)
                continue
        for variant in ("permuted", "renamed") + (("decoy",) if B is not None and swapped else ()):
            try:
                got, info, cfg = run(variant, optimiser)
            except Exception as e:
                ctx.violation("C07.equivariance", site, "%s input raises while the original succeeds" % variant, icls,
                              what="%s.select raised %s: %s on the %s population" % (name, type(e).__name__, str(e)[:100], variant),
                              witness=w, coords=coords)
                ctx.ok("C07.equivariance")
                continue
            if optimiser == "exact" and not info.get("margin", 0.0) > tol:
                ctx.sumnote("equivariance cases skipped: optimum not unique")
                continue
            want = image(ref) if variant == "permuted" else ref
            if variant == "decoy":
                ctx.hook("equivariance: decoy run with different content in the inputs the protocol does not read")
                ctx.check("C07.equivariance", got == want, site, "choice unchanged when only inputs the family does not read are replaced",
                          "%s/%s" % (icls, ocls), witness=dict(w, original_choice=ref, choice=got, variant=variant), coords=coords)
                continue
            ctx.check("C07.equivariance", got == want, site,
                      "choice on the %s population is the %s of the original choice" % (variant, "image" if variant == "permuted" else "same set"),
                      "%s/%s" % (icls, ocls), witness=dict(w, original_choice=ref, choice=got, expected=want, variant=variant), coords=coords)


FAMILIES = {"cfg": (case_cfg, 2400, 50000), "sel": (case_sel, 57 * 40, 57 * 700), "equi": (case_equi, 19 * 12, 19 * 200)}


def run_shard(ctx):
    for name, (fn, q, t) in FAMILIES.items():
        for c in ctx.case_ids(q, t):
            fn(ctx, c)
    P = protocols()
    import time
    ctx.sumnote("cpu seconds (all shards)", int(round(time.process_time())))
    ctx.note("protocol classes discovered", len(P))
    ctx.note("protocol modules that do not import", _STATE.get("unimportable", []))


def replay(ctx, coords):
    FAMILIES[coords[1]][0](ctx, int(coords[0]))
