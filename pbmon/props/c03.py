"""C03 - labels stay attached to their data under every matrix operation history."""
import copy
import importlib

import numpy

from pbmon import boot  # noqa: F401
from pbmon.oracle import labelmodel as LM

PROPERTY = "C03"
NSHARDS = {"quick": 6, "thorough": 16}
CLAUSES = {"C03.model": 3000, "C03.intrinsic": 1500, "C03.pure": 1500, "C03.equiv": 2000, "C03.groups": 500, "C03.atomic": 20,
           "C03.genotyping": 100}
RULE = ("operation histories (quick 1-12, thorough 1-40 steps) on 13 labelled matrix classes built from entity ids (every label array "
        "and every cell a pure function of the ids); operations select/delete/insert/adjoin/concat/append/remove/incorp/reorder/sort/"
        "lexsort/group/ungroup along every labelled axis in axis-specific and axis-generic, mutating and non-mutating forms, with int/"
        "slice/list/ndarray/bool-mask/negative index arguments, matrix or raw-array+label operands; label regimes unique/duplicated/"
        "optional-absent; shapes down to 1x1.  In-place operations run on the live object itself; the (up to two) matrices the live "
        "object was last derived from by non-mutating operations stay alive and are re-judged after every later step (shared label "
        "arrays).  ~6% of the steps are 'rejects' (index past the end, block of incompatible shape) that only feed C03.atomic.  "
        "Non-trivial: a history with >= 1 executed step; distinct = digest of class+regime+history.")
ASSUME = ["numpy.take/delete/insert index semantics (trusted) define which rows an index argument denotes",
          "square-taxa classes: insert/adjoin/concat/append/incorp along the taxa axes are not generated (cells between entities of "
          "different source matrices are undefined); all other operations are",
          "sorting with default keys is only required to yield a permutation of the records (plus non-decreasing group labels); custom "
          "keys must come out in numpy.lexsort order",
          "DenseBreedingValueMatrix cells are compared through unscale() (see C15 for scaling itself); its finding keys carry the "
          "class name because location/scale are state the inherited implementations do not know",
          "a rejected (raising) in-place call must leave the full observable state unchanged; rejects are limited to arguments numpy "
          "itself refuses before anything is written (no sort with malformed keys: the library drops the group cache first, which "
          "leaves a valid ungrouped matrix and is not judged)"]

SPECS = {
    "DenseTaxaMatrix": ("pybrops.core.mat.DenseTaxaMatrix", ("taxa", "pad"), "float"),
    "DenseVariantMatrix": ("pybrops.core.mat.DenseVariantMatrix", ("vrnt", "pad"), "float"),
    "DenseTraitMatrix": ("pybrops.core.mat.DenseTraitMatrix", ("trait", "pad"), "float"),
    "DenseTaxaVariantMatrix": ("pybrops.core.mat.DenseTaxaVariantMatrix", ("taxa", "vrnt"), "float"),
    "DensePhasedTaxaVariantMatrix": ("pybrops.core.mat.DensePhasedTaxaVariantMatrix", ("phase", "taxa", "vrnt"), "float"),
    "DenseTaxaTraitMatrix": ("pybrops.core.mat.DenseTaxaTraitMatrix", ("taxa", "trait"), "float"),
    "DenseSquareTaxaMatrix": ("pybrops.core.mat.DenseSquareTaxaMatrix", ("taxa", "taxa"), "float"),
    "DenseSquareTaxaTraitMatrix": ("pybrops.core.mat.DenseSquareTaxaTraitMatrix", ("taxa", "taxa", "trait"), "float"),
    "DenseGenotypeMatrix": ("pybrops.popgen.gmat.DenseGenotypeMatrix", ("taxa", "vrnt"), "int8"),
    "DensePhasedGenotypeMatrix": ("pybrops.popgen.gmat.DensePhasedGenotypeMatrix", ("phase", "taxa", "vrnt"), "int8"),
    "DenseBreedingValueMatrix": ("pybrops.popgen.bvmat.DenseBreedingValueMatrix", ("taxa", "trait"), "float"),
    "DenseMolecularCoancestryMatrix": ("pybrops.popgen.cmat.DenseMolecularCoancestryMatrix", ("taxa", "taxa"), "float"),
    "DenseTwoWayDHAdditiveGeneticVarianceMatrix": ("pybrops.model.vmat.DenseTwoWayDHAdditiveGeneticVarianceMatrix", ("taxa", "taxa", "trait"), "float"),
    "DenseThreeWayDHAdditiveGeneticVarianceMatrix": ("pybrops.model.vmat.DenseThreeWayDHAdditiveGeneticVarianceMatrix", ("taxa", "taxa", "taxa", "trait"), "float"),
    "DenseFourWayDHAdditiveGeneticVarianceMatrix": ("pybrops.model.vmat.DenseFourWayDHAdditiveGeneticVarianceMatrix", ("taxa", "taxa", "taxa", "taxa", "trait"), "float"),
    "DenseSquareTraitMatrix": ("pybrops.core.mat.DenseSquareTraitMatrix", ("trait", "trait"), "float"),
    "DenseSquareTaxaSquareTraitMatrix": ("pybrops.core.mat.DenseSquareTaxaSquareTraitMatrix", ("taxa", "taxa", "trait", "trait"), "float"),
}
GROUP_FIELDS = ("name", "stix", "spix", "len")


def klass(name):
    return getattr(importlib.import_module(SPECS[name][0]), name)


def axes_of(name):
    dims = SPECS[name][1]
    return {a: [i for i, d in enumerate(dims) if d == a] for a in LM.AXES if a in dims}


def is_square(name, axis):
    return len(axes_of(name)[axis]) > 1


def defining(cls, meth):
    for k in cls.__mro__:
        if meth in vars(k):
            return k.__name__
    return cls.__name__


BV = "DenseBreedingValueMatrix"
BV_TRAIT_SITE = BV + ".<trait-axis operation> (inherited from DenseTaxaTraitMatrix/DenseTraitMatrix)"
BV_TRAIT_REL = "per-trait location/scale follow the traits, so that unscale() returns the entities' values"
BV_TAXA_SITE = BV + ".<taxa-axis operation joining matrices> (inherited from DenseTaxaTraitMatrix/DenseTaxaMatrix)"
BV_TAXA_REL = "separately standardised operands are joined on the original scale, so that unscale() returns the entities' values"


def site_of(name, cls, meth):
    """Finding-key site: the defining class of the method; the breeding-value matrix keeps its own sites because its
    cells are judged through unscale(), i.e. through state (location/scale) the inherited implementations do not know."""
    d = defining(cls, meth)
    if name == BV:
        return "%s.%s%s" % (BV, meth, "" if d == BV else " (inherited from %s)" % d)
    return "%s.%s" % (d, meth)


def bv_scale_stale(obj, ids, regime):
    """Breeding-value matrix only: every label array and the *stored* (standardised) values are exactly those of the
    expected entities and only location/scale are not the location/scale of those trait columns."""
    try:
        for f, e in expected_fields(BV, ids, regime).items():
            v = getattr(obj, f, None)
            if (e is None) != (v is None) or (e is not None and numpy.asarray(v).tolist() != numpy.asarray(e).tolist()):
                return False
        E = LM.cells("float", SPECS[BV][1], ids)
        loc = E.mean(0); sc = E.std(0); sc[sc == 0.0] = 1.0
        Z = (E - loc) / sc
        m = numpy.asarray(obj.mat)
        if m.shape != Z.shape or not numpy.allclose(m, Z, rtol=1e-9, atol=1e-9):
            return False
        lo = numpy.asarray(obj.location); so = numpy.asarray(obj.scale)
        return not (lo.shape == loc.shape and so.shape == sc.shape and numpy.allclose(lo, loc, rtol=1e-9, atol=1e-6) and
                    numpy.allclose(so, sc, rtol=1e-9, atol=1e-9))
    except Exception:
        return False


def build(name, ids, regime):
    cls = klass(name)
    _, dims, kind = SPECS[name]
    mat = LM.cells(kind, dims, ids)
    kw = {}
    for a in axes_of(name):
        kw.update({k: v for k, v in regime.labels(a, ids[a]).items()})
    if name == "DenseBreedingValueMatrix":
        return cls.from_numpy(mat, **kw)
    if name == "DenseGenotypeMatrix":
        return cls(mat, ploidy=2, **kw)
    return cls(mat, **kw)


def data_of(name, obj):
    return obj.unscale() if name == "DenseBreedingValueMatrix" else obj.mat


def label_fields(name, regime):
    out = []
    for a in axes_of(name):
        out += list(regime.labels(a, [0]).keys())
    return out


def group_state(obj, axis):
    if axis not in LM.GROUPABLE or not hasattr(obj, "is_grouped_" + axis):
        return None
    arr, pre = LM.GROUPABLE[axis]
    return {f: getattr(obj, pre + f, None) for f in GROUP_FIELDS}


def observe(name, obj, regime):
    """Observable state used for equivalence / purity comparisons."""
    st = {}
    try:
        d = numpy.asarray(data_of(name, obj))
        st["data"] = (d.shape, str(d.dtype), numpy.round(d.astype(float), 6).tobytes() if d.dtype.kind == "f" else d.tobytes())
    except Exception as e:
        st["data"] = "raises %s" % type(e).__name__
    for f in label_fields(name, regime):
        v = getattr(obj, f, None)
        st[f] = None if v is None else (str(numpy.asarray(v).dtype.kind), numpy.asarray(v).tolist())
    for a in axes_of(name):
        g = group_state(obj, a)
        if g is not None:
            st["group_" + a] = {k: (None if v is None else numpy.asarray(v).tolist()) for k, v in g.items()}
    return st


def diff_state(a, b):
    return sorted(k for k in set(a) | set(b) if a.get(k) != b.get(k))


def expected_fields(name, ids, regime):
    exp = {}
    for a in axes_of(name):
        exp.update(regime.labels(a, ids[a]))
    return exp


def compare_model(name, obj, ids, regime, blocks=None):
    """Fields of ``obj`` that disagree with the entity model; 'mat' for the data cells.
    ``blocks=(axis, nold)``: block-diagonal join along a square axis - only the cells whose indices along ALL matrix axes of that
    label axis are old (< nold) or ALL are new (>= nold) are defined by the entities; the cross blocks hold the fill value."""
    bad = []
    exp = expected_fields(name, ids, regime)
    for f, e in exp.items():
        v = getattr(obj, f, None)
        if e is None:
            if v is not None:
                bad.append(f + " (should be absent)")
        elif v is None or len(v) != len(e) or numpy.asarray(v).tolist() != numpy.asarray(e).tolist():
            bad.append(f)
    try:
        d = numpy.asarray(data_of(name, obj))
        e = LM.cells(SPECS[name][2], SPECS[name][1], ids)
        if d.shape != e.shape:
            bad.append("mat shape")
        elif blocks is not None:
            axs = axes_of(name)[blocks[0]]
            grids = numpy.meshgrid(*[numpy.arange(n_) for n_ in d.shape], indexing="ij")
            isnew = [grids[a_] >= blocks[1] for a_ in axs]
            mask = numpy.logical_and.reduce(isnew) | numpy.logical_and.reduce([~x for x in isnew])
            if not numpy.array_equal(d[mask], e[mask]):
                bad.append("mat")
        elif d.dtype.kind == "f":
            # id-coded cells are exactly representable: compare exactly (a relative tolerance would hide a unit difference under
            # the 1e9/1e12 blocks of the three-/four-way matrices); breeding values pass through unscale() and get a tolerance
            if (name == "DenseBreedingValueMatrix" and not numpy.allclose(d, e, rtol=1e-9, atol=1e-6, equal_nan=True)) or \
                    (name != "DenseBreedingValueMatrix" and not numpy.array_equal(d, e)):
                bad.append("mat")
        elif not numpy.array_equal(d, e):
            bad.append("mat")
    except Exception as ex:
        bad.append("mat (unscale raises %s)" % type(ex).__name__)
    return bad


def check_groups(ctx, name, obj, site, icls, coords, hist):
    allok = True
    for a in axes_of(name):
        if a not in LM.GROUPABLE or not hasattr(obj, "is_grouped_" + a):
            continue
        try:
            flag = getattr(obj, "is_grouped_" + a)()
        except Exception:
            continue
        if not flag:
            continue
        arr, pre = LM.GROUPABLE[a]
        grp = getattr(obj, arr, None)
        g = group_state(obj, a)
        ok = grp is not None and all(g[f] is not None for f in GROUP_FIELDS)
        why = "group arrays missing"
        if ok:
            nm, st, sp, ln = (numpy.asarray(g[f]) for f in GROUP_FIELDS)
            grp = numpy.asarray(grp)
            ok = len(nm) == len(st) == len(sp) == len(ln); why = "group arrays of different length"
            if ok:
                ok = bool(numpy.array_equal(sp, st + ln) and ln.sum() == len(grp) and numpy.all(ln > 0)); why = "spix != stix+len, empty group or lengths do not sum to axis length"
            if ok:
                ok = nm.tolist() == sorted(set(grp.tolist())); why = "names are not the sorted distinct group values present"
            if ok:
                ok = all(bool(numpy.all(grp[s:e] == n)) for n, s, e in zip(nm, st, sp)) and (len(st) == 0 or st[0] == 0) and \
                    bool(numpy.array_equal(st[1:], sp[:-1])); why = "runs are not contiguous/exhaustive or members carry another group value"
        ctx.check("C03.groups", ok, site, "grouped flag implies a true contiguous partition", "%s group metadata after operation on %s" % (a, icls),
                  what="%s (%s): is_grouped_%s() is true but %s" % (site, name, a, why), witness={"class": name, "history": hist, arr: grp, "groups": g}, coords=coords)
        allok = allok and ok
    return allok


def check_intrinsic(ctx, name, obj, regime, site, icls, coords, hist):
    """Independent of the list model: decode ids from the primary label of every axis; all other labels and all
    cells must be those of the decoded entities (unique-label regime only)."""
    if regime.kind != "unique" or any(regime.unnamed[a] for a in axes_of(name)):
        return None       # entities joined without a name cannot be decoded from their (None) primary label
    ids = {}
    for a in axes_of(name):
        v = getattr(obj, LM.PRIMARY[a], None)
        if v is None:
            ctx.check("C03.intrinsic", False, site, "primary label array present", "%s axis/%s" % (a, icls), witness={"class": name, "history": hist}, coords=coords)
            return None
        try:
            ids[a] = [int(str(x)[1:]) for x in v]
        except ValueError:
            ctx.check("C03.intrinsic", False, site, "primary labels decodable", "%s axis/%s" % (a, icls), witness={"class": name, "labels": v}, coords=coords)
            return None
    bad = compare_model(name, obj, ids, regime)
    ctx.check("C03.intrinsic", not bad, site, "parallel label arrays and cells belong to the same entities", icls,
              what="%s: fields %s do not belong to the entities named by the primary labels" % (site, bad),
              witness={"class": name, "history": hist, "fields": bad, "decoded_ids": ids}, coords=coords)
    return ids


# ---------------------------------------------------------------- one step of a history
def gen_index(g, n, form):
    """(argument, description) for select/delete style index arguments on an axis of length n."""
    if form == "int":
        i = int(g.integers(-n, n))
        if g.random() < 0.4:
            return numpy.int64(i), "numpy integer scalar"     # what argmax()/Generator.integers() hand back
        return i, "int"
    if form == "slice":
        if g.random() < 0.35:     # open-ended, negative-bound and reverse slices
            cands = [slice(None, None, -1), slice(None, None, -2), slice(None, 1, -1), slice(-2, None), slice(None, -1), slice(-3, None, 2),
                     slice(n - 1, None, -2), slice(None, None, 2), slice(1, None)]
            return cands[int(g.integers(len(cands)))], "open-ended or reverse slice"
        a = int(g.integers(0, n)); b = int(g.integers(a, n + 1)); st = int(g.choice([1, 1, 2]))
        return slice(a, b, st), "slice"
    if form == "mask":
        m = g.random(n) < 0.5; return m, "bool mask"
    k = int(g.integers(1, n + 1))
    ix = g.integers(-n, n, k)
    if form == "list":
        return [int(x) for x in ix], "list"
    return ix.astype("int64"), "ndarray"


def run_variants(ctx, name, variants, obj, regime, operands, live_obj=None):
    """Execute each variant on its own deep copy of ``obj``; returns list of (tag, meth, mutating, result-or-None,
    exception-or-None, receiver-after, operands-after).  If ``live_obj`` is given (in-place operations only) the first
    variant runs on that object itself, so that arrays it shares with matrices derived earlier are really exposed."""
    out = []
    for k, (tag, meth, mut, fn) in enumerate(variants):
        o = live_obj if (live_obj is not None and k == 0) else copy.deepcopy(obj)
        ops = [copy.deepcopy(x) for x in operands]
        try:
            r = fn(o, ops)
            res = o if mut else r
            out.append((tag, meth, mut, res, None, o, ops))
        except Exception as e:  # noqa: BLE001
            out.append((tag, meth, mut, None, e, o, ops))
    return out


def step(ctx, g, name, obj, ids, regime, nxt, hist, coords, sibs):
    out = step_(ctx, g, name, obj, ids, regime, nxt, hist, coords, sibs)
    if hist and not hist[-1].endswith("raised") and out[2] != "skipped":
        # every matrix the live object was derived from by a non-mutating operation (they may share label arrays with
        # it) must still carry its own labels and cells after whatever was just done to the live object
        for k in range(len(sibs) - 1, -1, -1):
            sobj, sids, born = sibs[k]
            bad = compare_model(name, sobj, sids, regime)
            ctx.check("C03.model", not bad, "%s on a derived matrix" % hist[-1].split("(")[0],
                      "a matrix the receiver was derived from (non-mutating operation) keeps its labels and cells", "shared arrays",
                      what="%s: after %s on the derived matrix, its source (state after step %d) has wrong %s" % (name, hist[-1], born, bad),
                      witness={"class": name, "history": list(hist), "source_after_step": born, "fields": bad}, coords=coords)
            if bad:
                del sibs[k]
    return out


def narrow_labels(obj):
    """Hand the object's integer label arrays over in the smallest integer dtype that holds their values (the setters
    accept any integer dtype; sources differ: int32 positions from one reader, int64 from another)."""
    done = False
    for f in ("taxa_grp", "vrnt_chrgrp", "vrnt_phypos", "vrnt_hapgrp"):
        v = getattr(obj, f, None)
        if v is None or len(v) == 0 or numpy.asarray(v).dtype.kind != "i":
            continue
        v = numpy.asarray(v)
        for dt in ("int8", "int16", "int32"):
            if numpy.iinfo(dt).min <= v.min() and v.max() <= numpy.iinfo(dt).max:
                if v.dtype != numpy.dtype(dt):
                    try:
                        setattr(obj, f, v.astype(dt)); done = True
                    except TypeError:
                        pass       # this class's setter insists on int64: narrower labels are outside its domain
                break
    return done


def step_(ctx, g, name, obj, ids, regime, nxt, hist, coords, sibs):
    cls = klass(name)
    if g.random() < 0.12 and narrow_labels(obj):
        hist.append("integer labels narrowed to the smallest holding dtype")
        ctx.sumnote("label dtype narrowings")
    axmap = axes_of(name)
    axis = list(axmap)[int(g.integers(len(axmap)))]
    ax = axmap[axis][0]
    cur = list(ids[axis]); n = len(cur)
    square = is_square(name, axis)
    ops = ["select", "delete", "reorder", "sort", "lexsort", "group", "ungroup"]
    if not square:
        ops += ["insert", "adjoin", "concat", "insert", "adjoin"]
    else:
        ops += ["adjoin"]        # block-diagonal join along a square axis (cross blocks = fill value); ends the history
    weights = {"group": 2.0, "sort": 1.5, "reorder": 1.5}
    p = numpy.array([weights.get(o, 1.0) for o in ops]); p /= p.sum()
    op = str(g.choice(ops, p=p))
    if op in ("group", "ungroup") and axis not in LM.GROUPABLE:
        op = "sort"
    grouped_before = bool(axis in LM.GROUPABLE and hasattr(obj, "is_grouped_" + axis) and getattr(obj, "is_grouped_" + axis)())
    icls = axis + " axis"
    detail = "%s labels%s" % (regime.kind, ", grouped" if grouped_before else "")
    S, G_ = "_" + axis, None

    def newids(k):
        out = list(range(nxt[axis], nxt[axis] + k)); nxt[axis] += k; return out

    def other(k):
        nw = newids(k); i2 = dict(ids); i2[axis] = nw
        o_ = build(name, i2, regime)
        if g.random() < 0.1:
            narrow_labels(o_)
        return o_, nw

    def rawkw(o):
        return {f: getattr(o, f) for f in regime.labels(axis, [0]).keys()}

    def mislabel(o, k):
        """Copy of operand ``o`` whose own labels along ``axis`` are those of other entities: explicit label arguments are
        documented to overwrite the fields of a matrix operand."""
        o2 = copy.deepcopy(o)
        for f, v in regime.labels(axis, newids(k)).items():
            if v is not None and getattr(o2, f, None) is not None:
                setattr(o2, f, v)
        return o2

    if op in ("sort", "group", "lexsort") and n > 1 and g.random() < 0.3:
        # entities listed group by group / chromosome by chromosome already (first default key non-decreasing) while the
        # secondary key is not in order: the operation still has to order within the runs
        order = sorted(range(n), key=lambda i_: regime.sortkey(axis, cur[i_])[0])
        if [cur[i_] for i_ in order] != cur:
            ids = dict(ids); ids[axis] = [cur[i_] for i_ in order]; cur = list(ids[axis])
            obj = build(name, ids, regime); del sibs[:]
            hist.append("rebuilt with the first default sort key of the %s axis already in order" % axis)
    if g.random() < 0.06:
        return reject_step(ctx, g, name, cls, obj, ids, regime, axis, axmap[axis], other, rawkw, hist, coords, icls, detail)
    operands = []
    variants = []   # (tag, method name for defining-class lookup, mutating, fn(receiver_copy, operand_copies))
    new = None; form = ""
    permutation_only = False
    if op == "select":
        arg, form = gen_index(g, n, str(g.choice(["ndarray", "list", "ndarray"])))
        new = LM.apply_index(cur, "select", arg)
        variants = [("select" + S, "select" + S, False, lambda o, _: getattr(o, "select" + S)(arg)),
                    ("select(axis)", "select", False, lambda o, _: o.select(arg, axis=ax))]
    elif op == "delete":
        if n < 2:
            return obj, ids, "skipped"
        arg, form = gen_index(g, n, str(g.choice(["int", "slice", "ndarray", "list", "mask"])))
        new = LM.apply_index(cur, "delete", arg)
        if len(new) == 0:
            return obj, ids, "skipped"
        variants = [("delete" + S, "delete" + S, False, lambda o, _: getattr(o, "delete" + S)(arg)),
                    ("delete(axis)", "delete", False, lambda o, _: o.delete(arg, axis=ax)),
                    ("remove" + S, "remove" + S, True, lambda o, _: getattr(o, "remove" + S)(arg)),
                    ("remove(axis)", "remove", True, lambda o, _: o.remove(arg, axis=ax))]
    elif op == "insert":
        multi = g.random() < 0.5
        k = int(g.integers(2, 4)) if multi else 1
        oth, nw = other(k); operands = [oth]
        posform = str(g.choice(["int", "positions"])) if k > 1 else "int"
        if posform == "int":
            pos = int(g.integers(-n, n + 1)) if n else 0
            if g.random() < 0.4:
                pos = numpy.int64(pos)        # numpy integer scalar index
        else:
            pos = g.integers(0, n + 1, k).astype("int64")
            if g.random() < 0.5:
                pos = numpy.sort(pos)        # ascending or in the caller's own order (numpy.insert semantics either way)
        new = LM.insert_ids(cur, pos, nw)
        raw = name != "DenseBreedingValueMatrix" and g.random() < 0.4
        form = "%s index, %d-entity block, %s operand" % ("scalar" if posform == "int" else "position-array", k, "raw" if raw else "matrix")

        omit = raw and axis in ("taxa", "vrnt") and g.random() < 0.3
        if omit:   # name argument left out: the new entities get the documented None placeholder; the history ends here
            regime.unnamed[axis].update(nw); new = LM.insert_ids(cur, pos, nw); form += ", names omitted"
        override = (not raw) and name != "DenseBreedingValueMatrix" and g.random() < 0.3
        if override:
            operands = [oth, mislabel(oth, k)]; form += ", explicit labels over a differently labelled matrix operand"

        def val(ops_):
            if override:
                return ops_[1], rawkw(ops_[0])
            return (ops_[0].mat, {a_: b_ for a_, b_ in rawkw(ops_[0]).items() if not (omit and a_ == LM.PRIMARY[axis])}) if raw else (ops_[0], {})
        variants = [("insert" + S, "insert" + S, False, lambda o, q: getattr(o, "insert" + S)(pos, val(q)[0], **val(q)[1])),
                    ("insert(axis)", "insert", False, lambda o, q: o.insert(pos, val(q)[0], axis=ax, **val(q)[1])),
                    ("incorp" + S, "incorp" + S, True, lambda o, q: getattr(o, "incorp" + S)(pos, val(q)[0], **val(q)[1])),
                    ("incorp(axis)", "incorp", True, lambda o, q: o.incorp(pos, val(q)[0], axis=ax, **val(q)[1]))]
    elif op == "adjoin":
        k = int(g.integers(1, 4)); oth, nw = other(k); operands = [oth]
        new = cur + nw
        raw = name != "DenseBreedingValueMatrix" and g.random() < 0.4
        form = "%s operand" % ("raw" if raw else "matrix")

        omit = raw and axis in ("taxa", "vrnt") and g.random() < 0.3
        if omit:
            regime.unnamed[axis].update(nw); form += ", names omitted"
        override = (not raw) and name != "DenseBreedingValueMatrix" and g.random() < 0.3
        if override:
            operands = [oth, mislabel(oth, k)]; form += ", explicit labels over a differently labelled matrix operand"
        if square:
            form += ", block-diagonal join along a square axis"

        def val(ops_):
            if override:
                return ops_[1], rawkw(ops_[0])
            return (ops_[0].mat, {a_: b_ for a_, b_ in rawkw(ops_[0]).items() if not (omit and a_ == LM.PRIMARY[axis])}) if raw else (ops_[0], {})
        variants = [("adjoin" + S, "adjoin" + S, False, lambda o, q: getattr(o, "adjoin" + S)(val(q)[0], **val(q)[1])),
                    ("adjoin(axis)", "adjoin", False, lambda o, q: o.adjoin(val(q)[0], axis=ax, **val(q)[1])),
                    ("append" + S, "append" + S, True, lambda o, q: getattr(o, "append" + S)(val(q)[0], **val(q)[1])),
                    ("append(axis)", "append", True, lambda o, q: o.append(val(q)[0], axis=ax, **val(q)[1]))]
    elif op == "concat":
        k1 = int(g.integers(1, 3)); o1, n1 = other(k1); operands = [o1]; new = cur + n1
        if g.random() < 0.4:
            o2, n2 = other(int(g.integers(1, 3))); operands.append(o2); new = new + n2
        if g.random() < 0.3 and axis in LM.GROUPABLE:   # concat of grouped and ungrouped
            try:
                getattr(operands[0], "group" + S)()
                # grouping may reorder the operand: resynchronise the expectation from its labels
                prim = getattr(operands[0], LM.PRIMARY[axis], None)
                if regime.kind == "unique" and prim is not None:
                    n1 = [int(str(x)[1:]) for x in prim]
                    new = cur + n1 + (new[len(cur) + len(n1):])
                else:
                    return obj, ids, "skipped"
            except Exception:
                pass
        if g.random() < 0.12:      # a one-element sequence: still a NEW object with the receiver's entities
            operands = []; new = list(cur)
        elif axis in ("taxa", "vrnt") and g.random() < 0.12 and getattr(obj, LM.PRIMARY[axis], None) is not None:
            # mixed presence of the optional name array among the matrices: the unnamed one first or later - the named rows keep
            # their names, the unnamed ones get the documented None placeholder (the history ends here)
            try:
                if g.random() < 0.5:
                    setattr(obj, LM.PRIMARY[axis], None); regime.unnamed[axis].update(cur)
                    del sibs[:]        # earlier matrices of the same entities still carry their names: no longer comparable by id
                else:
                    setattr(operands[0], LM.PRIMARY[axis], None); regime.unnamed[axis].update(n1)
            except Exception:
                pass
        form = "%d operands" % (1 + len(operands))
        variants = [("concat" + S, "concat" + S, False, lambda o, q: getattr(cls, "concat" + S)([o] + list(q))),
                    ("concat(axis)", "concat", False, lambda o, q: cls.concat([o] + list(q), axis=ax))]
    elif op == "reorder":
        perm = g.permutation(n)
        form = str(g.choice(["ndarray", "list"]))
        arg = perm if form == "ndarray" else [int(x) for x in perm]
        new = LM.apply_index(cur, "reorder", perm)
        variants = [("reorder" + S, "reorder" + S, True, lambda o, _: getattr(o, "reorder" + S)(arg)),
                    ("reorder(axis)", "reorder", True, lambda o, _: o.reorder(arg, axis=ax))]
    elif op in ("sort", "lexsort"):
        custom = g.random() < 0.5
        if custom:
            k1 = g.integers(0, 3, n); k2 = g.integers(0, 3, n)
            keys = (k2, k1) if g.random() < 0.6 else (k1,)
            form = "custom keys"
        else:
            keys = None; form = "default keys"
        if op == "sort":
            permutation_only = True
            variants = [("sort" + S, "sort" + S, True, lambda o, _: getattr(o, "sort" + S)(keys)),
                        ("sort(axis)", "sort", True, lambda o, _: o.sort(keys, axis=ax))]
        else:
            return lexsort_step(ctx, g, name, obj, ids, regime, axis, ax, keys, form, icls, hist, coords)
        G_ = keys
    elif op == "group":
        permutation_only = True
        variants = [("group" + S, "group" + S, True, lambda o, _: getattr(o, "group" + S)()),
                    ("group(axis)", "group", True, lambda o, _: o.group(axis=ax))]
    elif op == "ungroup":
        new = cur
        variants = [("ungroup" + S, "ungroup" + S, True, lambda o, _: getattr(o, "ungroup" + S)()),
                    ("ungroup(axis)", "ungroup", True, lambda o, _: o.ungroup(axis=ax))]
    variants = [v for v in variants if hasattr(cls, v[1])]
    if not variants:
        return obj, ids, "skipped"
    hist.append("%s[%s](%s)" % (op, axis, form))
    icls_op = icls + ("/scalar index with multi-entity block" if op == "insert" and form.startswith("scalar") and not form.startswith("scalar index, 1-") else "")
    before = observe(name, obj, regime)
    op_before = [observe(name, x, regime) for x in operands]
    live = all(v[2] for v in variants)     # in-place operation: run the first form on the live object itself
    src = copy.deepcopy(obj) if live else obj
    results = run_variants(ctx, name, variants, src, regime, operands, live_obj=obj if live else None)
    ok_res = [r for r in results if r[4] is None]
    w0 = {"class": name, "regime": detail, "history": list(hist), "ids_before": {a: list(v) for a, v in ids.items()}}
    # ---- purity / atomicity
    for tag, meth, mut, res, exc, recv, ops_after in results:
        site = site_of(name, cls, meth)
        if exc is None and not mut:
            ctx.check("C03.pure", res is not recv and not diff_state(before, observe(name, recv, regime)) and
                      all(not diff_state(b, observe(name, x, regime)) for b, x in zip(op_before, ops_after)), site,
                      "non-mutating operation leaves receiver and operands unchanged and returns a new object", icls,
                      witness=dict(w0, changed=diff_state(before, observe(name, recv, regime))), coords=coords)
        elif exc is None and mut and operands:
            ctx.check("C03.pure", all(not diff_state(b, observe(name, x, regime)) for b, x in zip(op_before, ops_after)), site,
                      "operation leaves its argument objects unchanged", icls, witness=w0, coords=coords)
        elif exc is not None and mut:
            d = diff_state(before, observe(name, recv, regime))
            ctx.check("C03.atomic", not d, site, "a raising in-place operation leaves the object unchanged", icls,
                      what="%s raised %s and left fields %s modified" % (site, type(exc).__name__, d), witness=dict(w0, changed=d), coords=coords)
    if not ok_res:
        ctx.raised("%s.%s[%s]" % (name, op, axis), results[0][4])
        hist[-1] += " -> raised"
        return src, ids, None
    # ---- equivalence between forms
    ref = ok_res[0]
    ref_state = observe(name, ref[3], regime)
    for tag, meth, mut, res, exc, recv, _ in results:
        site = site_of(name, cls, meth)
        if exc is not None:
            ctx.check("C03.equiv", False, site, "raises %s while an equivalent form succeeds" % type(exc).__name__, icls_op,
                      what="%s raised %s (%s) while %s succeeded" % (site, type(exc).__name__, str(exc)[:80], ref[0]),
                      witness=dict(w0, succeeded=ref[0]), coords=coords)
        elif res is not ref[3]:
            d = diff_state(ref_state, observe(name, res, regime))
            rel = "same state as %s" % ("its non-mutating counterpart" if mut != ref[2] else "the axis-specific form")
            if d == ["data"] and name == BV and axis == "trait" and numpy.array_equal(numpy.asarray(res.mat), numpy.asarray(ref[3].mat), equal_nan=True):
                # stored values and labels agree, only location/scale differ: one mechanism for every trait-axis operation
                ctx.check("C03.equiv", False, BV_TRAIT_SITE, rel + " (location/scale)", icls,
                          what="%s and %s: same stored values and labels but different location/scale (%s/%s vs %s/%s)" % (
                              site, ref[0], res.location, res.scale, ref[3].location, ref[3].scale),
                          witness=dict(w0, fields=d, reference=ref[0], form=tag), coords=coords)
                continue
            if d == ["data"] and name == BV and axis == "taxa" and op in ("insert", "adjoin"):
                # labels agree, only the values seen through unscale() differ: the inherited in-place form joins stored values
                ctx.check("C03.equiv", False, BV_TAXA_SITE, rel + " (values through unscale())", icls,
                          what="%s and %s have the same labels but different unscale() values" % (site, ref[0]),
                          witness=dict(w0, fields=d, reference=ref[0], form=tag), coords=coords)
                continue
            ctx.check("C03.equiv", not d, site, rel, icls_op,
                      what="%s and %s differ in %s" % (site, ref[0], d), witness=dict(w0, fields=d, reference=ref[0]), coords=coords)
    # ---- model / intrinsic / groups on the reference result
    res = ref[3]
    site = site_of(name, cls, ref[1])
    if permutation_only:
        new = permutation_check(ctx, name, src, res, ids, regime, axis, G_, site, icls, w0, coords, op)
        if new is None:
            return build(name, ids, regime), ids, "resync"
    ids2 = dict(ids); ids2[axis] = new
    sqjoin = (axis, n) if (square and op == "adjoin") else None
    bad = compare_model(name, res, ids2, regime, blocks=sqjoin)
    if bad and name == BV and axis == "trait" and bv_scale_stale(res, ids2, regime):
        # all labels and the stored values are right, only location/scale were not carried along
        ctx.check("C03.model", False, BV_TRAIT_SITE, BV_TRAIT_REL, icls,
                  what="%s: labels and stored values are those of the expected entities but location=%s scale=%s, so unscale() %s" % (
                      site, res.location, res.scale, bad), witness=dict(w0, fields=bad, expected_ids=new, operation=ref[0]), coords=coords)
        if regime.kind == "unique":
            ctx.check("C03.intrinsic", False, BV_TRAIT_SITE, BV_TRAIT_REL, icls, witness=dict(w0, fields=bad, operation=ref[0]), coords=coords)
        check_groups(ctx, name, res, site, icls, coords, list(hist))
        return build(name, ids2, regime), ids2, "resync"
    if bad == ["mat"] and name == BV and axis == "taxa" and op in ("insert", "adjoin", "concat"):
        # all labels right, only the values seen through unscale() wrong after joining matrices along the taxa axis
        ctx.check("C03.model", False, BV_TAXA_SITE, BV_TAXA_REL, icls,
                  what="%s: labels are those of the expected entities but unscale() does not return their values" % site,
                  witness=dict(w0, fields=bad, expected_ids=new, operation=ref[0]), coords=coords)
        if regime.kind == "unique":
            ctx.check("C03.intrinsic", False, BV_TAXA_SITE, BV_TAXA_REL, icls, witness=dict(w0, fields=bad, operation=ref[0]), coords=coords)
        check_groups(ctx, name, res, site, icls, coords, list(hist))
        return build(name, ids2, regime), ids2, "resync"
    ctx.check("C03.model", not bad, site, "labels and cells equal those of the expected entity sequence", icls_op,
              what="%s (%s): fields %s differ from the entity model" % (site, name, bad), witness=dict(w0, fields=bad, expected_ids=new), coords=coords)
    if sqjoin is not None:
        check_groups(ctx, name, res, site, icls, coords, list(hist))
        ctx.sumnote("block-diagonal joins along a square axis")
        return res, ids2, "final"       # the cross blocks hold the fill value: the entity model ends here
    dec = check_intrinsic(ctx, name, res, regime, site, icls_op, coords, list(hist))
    gok = check_groups(ctx, name, res, site, icls, coords, list(hist))
    if not gok or bad or (dec is not None and dec != {a: list(v) for a, v in ids2.items()}):
        return build(name, ids2, regime), ids2, "resync"      # resynchronisation rule
    if any(regime.unnamed[a] for a in axes_of(name)):
        return res, ids2, "final"     # None names cannot be sorted or grouped by the library: judged above, history ends
    if not ref[2]:
        # the receiver copy the result was derived from stays alive as a sibling (it may share arrays with the result)
        sibs.append((ref[5], {a: list(v) for a, v in ids.items()}, len(hist) - 1))
        del sibs[:-2]
    return res, ids2, None


def reject_step(ctx, g, name, cls, obj, ids, regime, axis, axs, other, rawkw, hist, coords, icls, detail):
    """Small 'rejects' class (DESIGN 2.1): an in-place operation is given an argument numpy itself rejects (index out of
    range, block of incompatible shape).  It must raise; whether it does is only counted.  What is judged is that the
    failed call did not half-apply: the full observable state of the receiver is what it was (C03.atomic)."""
    S = "_" + axis
    ax = axs[0]
    n = len(ids[axis])
    kinds = ["remove", "reorder"] + ([] if len(axs) > 1 else ["incorp", "append"])
    kind = str(g.choice(kinds))
    calls = []
    if kind == "remove":
        arg = n + int(g.integers(0, 3)); form = "index past the end"
        calls = [("remove" + S, lambda o: getattr(o, "remove" + S)(arg)), ("remove", lambda o: o.remove(arg, axis=ax))]
    elif kind == "reorder":
        perm = [int(x) for x in g.permutation(n)]; perm[int(g.integers(n))] = n + int(g.integers(0, 3)); form = "index past the end"
        calls = [("reorder" + S, lambda o: getattr(o, "reorder" + S)(perm)), ("reorder", lambda o: o.reorder(perm, axis=ax))]
    elif kind == "incorp":
        oth, _ = other(1); pos = n + 1 + int(g.integers(0, 3)); form = "position past the end"
        calls = [("incorp" + S, lambda o: getattr(o, "incorp" + S)(pos, copy.deepcopy(oth))), ("incorp", lambda o: o.incorp(pos, copy.deepcopy(oth), axis=ax))]
    else:
        oth, _ = other(1); shp = list(numpy.asarray(oth.mat).shape); k = [i for i in range(len(shp)) if i != ax][-1]; shp[k] += 1
        vals = numpy.zeros(shp, dtype=numpy.asarray(oth.mat).dtype); kw = rawkw(oth); form = "block of incompatible shape"
        calls = [("append" + S, lambda o: getattr(o, "append" + S)(vals, **kw)), ("append", lambda o: o.append(vals, axis=ax, **kw))]
    hist.append("reject:%s[%s](%s)" % (kind, axis, form))
    before = observe(name, obj, regime)
    for tag, fn in calls:
        if not hasattr(cls, tag):
            continue
        o = copy.deepcopy(obj)
        try:
            fn(o)
        except Exception as e:  # noqa: BLE001
            ctx.raised("%s.reject:%s[%s]" % (name, kind, axis), e)
            d = diff_state(before, observe(name, o, regime))
            site = site_of(name, cls, tag)
            ctx.check("C03.atomic", not d, site, "a raising in-place operation leaves the object unchanged", icls + "/rejected argument",
                      what="%s raised %s on %s and left fields %s modified" % (site, type(e).__name__, form, d),
                      witness={"class": name, "regime": detail, "history": list(hist), "changed": d}, coords=coords)
        else:
            ctx.sumnote("rejects that did not raise (not judged): %s[%s] %s" % (kind, axis, form))
    hist[-1] += " -> raised"
    return obj, ids, None


def records(name, obj, regime, axis):
    """Per-position records along ``axis`` (all labels of that axis + the data slice)."""
    ax = axes_of(name)[axis]
    # breeding-value matrix: rows/columns are matched on the stored values; the cells themselves are then judged
    # through unscale() against the entity order found here
    d = numpy.asarray(obj.mat if name == BV else data_of(name, obj))
    n = d.shape[ax[0]]
    labs = [getattr(obj, f, None) for f in regime.labels(axis, [0]).keys()]
    recs = []
    for i in range(n):
        lab = tuple(None if v is None else (v[i].item() if hasattr(v[i], "item") else v[i]) for v in labs)
        sl = numpy.take(d, i, axis=ax[0])
        if len(ax) > 1:   # square: sorted multiset of the row (order of columns changes with the permutation)
            body = tuple(sorted(numpy.round(numpy.asarray(sl, dtype=float).ravel(), 6).tolist()))
        else:
            body = numpy.round(numpy.asarray(sl, dtype=float), 6).tobytes()
        recs.append((lab, body))
    return recs


def permutation_check(ctx, name, before_obj, after_obj, ids, regime, axis, keys, site, icls, w0, coords, op):
    """sort/group: the result must be a permutation of the source records; returns the new id order (or None)."""
    try:
        rb = records(name, before_obj, regime, axis); ra = records(name, after_obj, regime, axis)
    except Exception as e:
        ctx.check("C03.model", False, site, "result readable", icls, what="%s: %s" % (site, e), witness=w0, coords=coords)
        return None
    pool = {}
    for i, r in enumerate(rb):
        pool.setdefault(r, []).append(i)
    if keys is not None:
        # identical records are interchangeable: hand them out in the order most favourable to sortedness
        kt = [tuple(numpy.asarray(k)[i].item() for k in reversed(keys)) for i in range(len(rb))]
        for r in pool:
            pool[r].sort(key=lambda i: kt[i])
    perm = []
    for r in ra:
        lst = pool.get(r)
        if not lst:
            ctx.check("C03.model", False, site, "result is a permutation of the source records", icls,
                      what="%s: a row/column of the result (labels %s) is not a record of the source" % (site, list(r[0])), witness=w0, coords=coords)
            return None
        perm.append(lst.pop(0))
    if len(perm) != len(rb):
        ctx.check("C03.model", False, site, "result is a permutation of the source records", icls, witness=w0, coords=coords)
        return None
    cur = list(ids[axis])
    new = [cur[i] for i in perm]
    if keys is not None:
        K = [numpy.asarray(k)[perm] for k in keys]
        order = numpy.lexsort(tuple(K))
        srt = all(numpy.array_equal(k[order], k) for k in K)
        ctx.check("C03.model", srt, site, "custom sort keys come out in lexsort order", icls, witness=dict(w0, keys=[k.tolist() for k in K]), coords=coords)
    elif axis in LM.GROUPABLE:
        grp = getattr(after_obj, LM.GROUPABLE[axis][0], None)
        if grp is not None:
            gl = numpy.asarray(grp).tolist()
            ctx.check("C03.model", gl == sorted(gl), site, "default sort/group leaves group labels non-decreasing", icls,
                      witness=dict(w0, group_labels=gl), coords=coords)
    if keys is None:
        # documented default keys (taxa: group then name; variants: chromosome then physical position; traits: name): the whole
        # key must come out non-decreasing, not only its first component
        try:
            ks = [regime.sortkey(axis, i_) for i_ in new]
            ordered = all(ks[j_] <= ks[j_ + 1] for j_ in range(len(ks) - 1))
        except TypeError:
            ordered = True       # keys of mixed type (None names) cannot be compared by the library either
        ctx.check("C03.model", ordered, site, "default sort/group orders by the documented default keys (all components)", icls,
                  witness=dict(w0, keys_after=[list(k_) for k_ in ks]), coords=coords)
    return new


def lexsort_step(ctx, g, name, obj, ids, regime, axis, ax, keys, form, icls, hist, coords):
    cls = klass(name)
    S = "_" + axis
    hist.append("lexsort[%s](%s)" % (axis, form))
    before = observe(name, obj, regime)
    outs = []
    for tag, meth, fn in (("lexsort" + S, "lexsort" + S, lambda o: getattr(o, "lexsort" + S)(keys)), ("lexsort(axis)", "lexsort", lambda o: o.lexsort(keys, axis=ax))):
        if not hasattr(cls, meth):
            continue
        o = copy.deepcopy(obj)
        try:
            r = fn(o); outs.append((tag, meth, numpy.asarray(r), None, o))
        except Exception as e:
            outs.append((tag, meth, None, e, o))
    good = [x for x in outs if x[3] is None]
    if not good:
        ctx.raised("%s.lexsort[%s]" % (name, axis), outs[0][3] if outs else None)
        return obj, ids, None
    n = len(ids[axis])
    for tag, meth, r, exc, o in outs:
        site = site_of(name, cls, meth)
        w = {"class": name, "history": list(hist), "indices": r}
        if exc is not None:
            ctx.check("C03.equiv", False, site, "raises %s while an equivalent form succeeds" % type(exc).__name__, icls, witness=w, coords=coords)
            continue
        ctx.check("C03.pure", not diff_state(before, observe(name, o, regime)), site, "lexsort leaves the matrix unchanged", icls, witness=w, coords=coords)
        isperm = sorted(r.tolist()) == list(range(n))
        ok = isperm
        if isperm and keys is not None:
            K = [numpy.asarray(k)[r] for k in keys]
            order = numpy.lexsort(tuple(K))
            ok = all(numpy.array_equal(k[order], k) for k in K)
        ctx.check("C03.model", ok, site, "lexsort returns a permutation that sorts the keys", icls, witness=w, coords=coords)
        ctx.check("C03.equiv", numpy.array_equal(r, good[0][2]), site, "axis-generic form equals axis-specific form", icls, witness=w, coords=coords)
    return obj, ids, None


# ---------------------------------------------------------------- genotyping protocols as operations
def case_genotyping(ctx, c):
    from pybrops.breed.prot.gt.DenseUnphasedGenotyping import DenseUnphasedGenotyping
    from pybrops.breed.prot.gt.DenseMaskedPhasedGenotyping import DenseMaskedPhasedGenotyping
    from pybrops.breed.prot.gt.DenseMaskedUnphasedGenotyping import DenseMaskedUnphasedGenotyping
    g = ctx.rng("gt", c)
    regime = LM.Regime("unique")
    ids = {"taxa": g.choice(60, int(g.integers(1, 7)), replace=False).tolist(), "vrnt": g.choice(60, int(g.integers(1, 9)), replace=False).tolist()}
    pg = build("DensePhasedGenotypeMatrix", ids, regime)
    grouped = g.random() < 0.6
    hist = []
    if grouped:
        pg.group_vrnt(); pg.group_taxa(); hist.append("group_vrnt, group_taxa")
        ids = {"taxa": [int(str(x)[1:]) for x in pg.taxa], "vrnt": [int(str(x)[1:]) for x in pg.vrnt_name]}
    which = int(g.integers(3))
    invert = bool(g.integers(2))
    coords = [c, "gt"]
    mask = numpy.asarray(pg.vrnt_mask, dtype=bool)
    if which == 0:
        prot = DenseUnphasedGenotyping(); pname = "DenseUnphasedGenotyping"; outname = "DenseGenotypeMatrix"; sel = list(range(len(ids["vrnt"])))
    else:
        Cls = DenseMaskedPhasedGenotyping if which == 1 else DenseMaskedUnphasedGenotyping
        pname = Cls.__name__; outname = "DensePhasedGenotypeMatrix" if which == 1 else "DenseGenotypeMatrix"
        try:
            prot = Cls(vrnt_mask=mask, invert=invert) if "invert" in Cls.__init__.__code__.co_varnames else Cls(vrnt_mask=(~mask if invert else mask))
        except Exception as e:
            ctx.raised(pname + " constructor", e); return
        eff = ~mask if (invert and "invert" in Cls.__init__.__code__.co_varnames) else (~mask if invert else mask)
        sel = numpy.flatnonzero(eff).tolist()
    icls = "%s/%s" % ("grouped source" if grouped else "ungrouped source", "inverted mask" if invert and which else "plain")
    ctx.case("gt:%s/%s" % (pname, icls), pname, pg.mat, mask, invert)
    before = observe("DensePhasedGenotypeMatrix", pg, regime)
    site = pname + ".genotype"
    try:
        out = prot.genotype(pg)
    except Exception as e:
        if len(sel) == 0:
            ctx.raised(site + " (empty selection)", e)
        else:
            ctx.raised(site, e)
        return
    ctx.check("C03.pure", not diff_state(before, observe("DensePhasedGenotypeMatrix", pg, regime)), site, "genotyping leaves the source unchanged", icls,
              witness={"history": hist}, coords=coords)
    ids2 = {"taxa": ids["taxa"], "vrnt": [ids["vrnt"][i] for i in sel]}
    exp_lab = expected_fields("DensePhasedGenotypeMatrix", ids2, regime)
    bad = []
    for f, e in exp_lab.items():
        v = getattr(out, f, None)
        if v is None or numpy.asarray(v).tolist() != numpy.asarray(e).tolist():
            bad.append(f)
    full = LM.cells("int8", ("phase", "taxa", "vrnt"), ids2)
    expm = full if outname == "DensePhasedGenotypeMatrix" else full.sum(0)
    if numpy.asarray(out.mat).shape != expm.shape or not numpy.array_equal(out.mat, expm):
        bad.append("mat")
    ctx.check("C03.genotyping", not bad, site, "result carries the labels and allele calls of the selected entities", icls,
              what="%s: fields %s wrong" % (site, bad), witness={"fields": bad, "history": hist, "mask": mask, "invert": invert}, coords=coords)
    check_groups(ctx, outname, out, site, icls, coords, hist)


# ---------------------------------------------------------------- histories
def one_history(ctx, c):
    g = ctx.rng("hist", c)
    names = list(SPECS)
    name = names[c % len(names)]
    regime = LM.Regime(str(g.choice(["unique", "unique", "unique", "dup", "absent"])))
    g2 = ctx.rng("hist-grp", c)
    if g2.random() < 0.45:
        # group / chromosome labels that are not 0..k: smallest label exactly -1 ("unknown"), all negative, gaps, large
        MAPS = [(1, -1), (1, -1), (1, -3), (1, -8), (2, -1), (3, 0), (2, 1), (1, 100000), (5, -20)]
        regime.tgrp = MAPS[int(g2.integers(len(MAPS)))]
        regime.cgrp = MAPS[int(g2.integers(len(MAPS)))]
        ctx.sumnote("histories with negative, gapped or large group labels")
    small = g.random() < 0.25
    ids = {}
    for a in axes_of(name):
        k = 1 if (small and g.random() < 0.6) else int(g.integers(1, 6))
        ids[a] = g.choice(50, k, replace=False).tolist()
    nxt = {"taxa": 100, "vrnt": int(g.choice([200, 200, 212, 220])), "trait": 60}     # from 215 on physical positions exceed int32
    coords = [c, "hist"]
    try:
        obj = build(name, ids, regime)
    except Exception as e:
        ctx.raised("build " + name, e)
        return
    nsteps = int(g.integers(1, 13)) if ctx.tier == "quick" else int(g.integers(1, 41))
    hist = []
    sibs = []
    for s in range(nsteps):
        try:
            obj, ids, note = step(ctx, g, name, obj, ids, regime, nxt, hist, coords, sibs)
        except Exception as e:  # harness problem: surface it, never hide it
            raise
        if note == "resync":
            ctx.sumnote("resynchronisations")
        if any(regime.unnamed[a] for a in regime.unnamed):
            ctx.sumnote("joins of raw arrays with the name argument omitted")
            break
        if note == "final":
            break
        if max(len(v) for v in ids.values()) > 14:
            break
    ctx.case("%s/%s" % (name, regime.kind), name, regime.kind, tuple(hist), trivial=len(hist) == 0)
    ctx.sumnote("operation steps", len(hist))
    if c % 97 == 0:
        ctx.sample({"class": name, "regime": regime.kind, "history": hist})


def run_shard(ctx):
    for c in ctx.case_ids(20800, 13 * 16 * 1500):
        one_history(ctx, c)
    for c in ctx.case_ids(2400, 30000):
        case_genotyping(ctx, c)


def replay(ctx, coords):
    if coords[1] == "gt":
        case_genotyping(ctx, int(coords[0]))
    else:
        one_history(ctx, int(coords[0]))
