"""C10 - selection limits bound every attainable value and only ever tighten (closed breeding histories).

Families: hist (mating histories), chain (selection-only, ploidy 1-4), huge (50 000+ founders, rare copies), pool (one
population object - and its unphased twin - changed in place / copied / re-read between the reads of its limits).  In every
family one breeding value matrix object per generation is consulted several times (second-and-later reads are judged too).
"""
import numpy

from pbmon import boot  # noqa: F401
from pbmon.gen import pop as GP
from pbmon.oracle import c10_limits as O

PROPERTY = "C10"
NSHARDS = {"quick": 4, "thorough": 16}
CLAUSES = {
    "C10.bracket": 300000,   # limits of pop_t bracket the GEBVs of pop_t and of every later population
    "C10.monotone": 150000,   # usl never increases / lsl never decreases (against every earlier generation)
    "C10.fixed": 60000,      # all loci fixed (integer counts) => usl == lsl == common GEBV
    "C10.lost": 60000,       # integer count 0 stays 0; reported frequency exactly 0/1 stays exactly 0/1
}
HOOKS_REQUIRED = ["histories with model: plain additive model", "histories with model: additive model with u_misc",
                  "histories with model: additive+dominance model", "histories with model: rrBLUPModel0 fit",
                  "generations with an allele frequency within 1e-5 of 0 or 1 but not equal to it",
                  "breeding-value route: gebv_numpy", "breeding-value route: gegv_numpy", "breeding-value route: predict_numpy(X = 0)",
                  "breeding-value route: gebv(phased).unscale()", "breeding-value route: gebv(ndarray).unscale()",
                  "breeding-value route: predict(contrast, phased).unscale()",
                  "matings with a cross table whose dtype cannot hold parent index * nvrnt",
                  "generations with more than 4096 taxa",
                  "histories on founders never grouped along the variant axis (interleaved chromosomes)",
                  "matings whose named parents are a proper subset of the matrix mated from", "mate calls", "select_taxa calls", "concat_taxa calls", "usl/lsl calls",
                  "fixed populations with ploidy*n not a power of two",
                  "transitions between ploidy*n a power of two and not a power of two",
                  "generations at a reciprocal-rounding-critical size",
                  "in-place remove_taxa / remove calls on a population object whose limits had been read",
                  "in-place append_taxa / append / incorp_taxa / incorp calls on a population object whose limits had been read",
                  "in-place reorder_taxa / sort_taxa / group_taxa calls on a population object whose limits had been read",
                  "populations fixed at all loci reached by an in-place cull",
                  "generations read from a copy()/deepcopy() of a population object",
                  "generations read again from unchanged objects",
                  "unphased matrix objects carried through an operation instead of being genotyped afresh",
                  "second or later reads of one breeding value matrix object"]
RULE = ("seeded closed breeding histories driven through the real classes: founders 1-40 taxa x 1-40 loci (random, skewed "
        "frequencies, inbred lines, singletons, complementary pair, already fixed), additive models with 1-3 traits and 1-3 "
        "fixed-effect rows, effects gaussian / with exact (signed) zeros / small integers / one-signed / all-zero column / 12 "
        "orders of magnitude; 3-25 generations, each one of: mating by one of the seven protocols (parents picked by truncation "
        "best/worst on a trait, at random, a single pair, a single parent, or all; with/without selfs; nself 0-2; progeny "
        "numbers forcing the population size through reciprocal-rounding-critical values 49, 98, 103, 107, 161, 187, 196, 197 "
        "and their neighbours, powers of two and 1-12), pure selection (select_taxa), or overlapping generations "
        "(concat_taxa of survivors and progeny); optional fixation tail (one doubled haploid, then re-expanded to critical "
        "sizes); plus selection-only chains on haploid/diploid/tetraploid phased matrices.  Every generation the limits are "
        "read through four inputs (phased matrix, unphased matrix from the real genotyping protocol, {0,1,2} ndarray, "
        "correctly rounded frequency vector) scaled and unscaled.  Non-trivial: at least one transition and one segregating "
        "or non-zero-effect locus; model class = plain additive 55 %, additive with u_misc 12 %, additive+dominance (u_d omitted "
        "or non-zero, with/without u_misc) 23 %, rrBLUPModel0 fitted on the founders 10 %; half of the effect matrices get a joint architecture (sparse, single QTL, rows cancelling "
        "exactly across traits, pairs cancelling within a trait, trait-specific markers, zero in some traits only); breeding "
        "values are read through gebv_numpy / gegv_numpy / predict_numpy / gebv() / gegv() / predict() on phased and array "
        "inputs; 30 % of the founder matrices are never grouped along the variant axis and store their "
        "chromosomes interleaved with unsorted positions; 3 % of the mating histories (15 % of the chains) contain one "
        "generation of 4097-8200 taxa; family 'huge' (12 histories quick, 400 thorough): 50 000-200 000 diploid founders x 3-8 "
        "loci whose alleles are one, two or five copies away from loss / fixation (both directions), first step = selecting "
        "the carriers, then small mated generations; cross tables (and select_taxa index arrays, count vectors) are passed in every integer "
        "dtype int8...uint32/int64 that can hold their values, C-/F-ordered, strided or reversed views; 10 % of the mating "
        "histories are 'wide' (100-330 taxa x 100-330 loci, sizes 127/128/255/256/257/330) so that parent index * nvrnt "
        "passes the 8- and 16-bit limits; family 'pool' (700 histories quick): a candidate pool of 2-24 founders (half of them "
        "sets of homozygous lines) kept in ONE phased matrix object (and one unphased twin object) whose limits / frequencies "
        "are read after every step: culled in place (remove_taxa / remove with index arrays of any integer dtype, negative "
        "indices, list, int, slice, boolean mask; 45 % down to a single individual), enlarged in place by the progeny of its "
        "members (append_taxa / append / incorp_taxa / incorp with objects or raw arrays, one or many positions), split into two "
        "cohorts of which the first is read alone and then re-united in place with the second, reordered / sorted / grouped in "
        "place, replaced by copy() / deepcopy(), read again unchanged, or replaced by fresh objects (mate, DH pool, select_taxa, "
        "delete_taxa); in every family 50 % of the generations additionally compute gebv() once and consult that one breeding "
        "value matrix object 2-4 times (unscale, select_taxa, tmax/tmin, copy, deepcopy, to_pandas, mat/scale/location, "
        "delete_taxa, reorder_taxa / remove_taxa in place) - every read has to lie inside the limits; distinct = digest of "
        "founders, effects and the executed operation list.")
ASSUME = ["the genomic breeding value of an individual is intercept + sum_j genotype_j * u_a[j]; the intercept is whatever "
          "gebv() documents: beta[0] + sum(beta[1:])/q, the contrast x* = [1, 1/q, ..., 1/q] (every route is compared with it), and usl/lsl with unscale=True are compared with "
          "those values, usl/lsl with unscale=False with the values without intercept (gebv_numpy)",
          "the population a cross descends from is the set of parents named in its cross table: when mate() is called on a "
          "larger matrix, select_taxa(unique xconfig members) is observed as a generation of its own (85 % of matings) and the "
          "progeny are judged against its limits and allele set (merged generations: side check of the progeny part)",
          "a closed history = mating among / selecting from / merging members of the current population only; the harness "
          "performs selection itself (index lists), the library performs mating, subsetting, merging, genotyping, limits",
          "float comparisons use |a-b| <= 1e-9*(ploidy*max_trait sum|u| + |intercept|) + 1e-12 on the safe side only",
          "tightness of the limits is not demanded (diagnostic counter only)",
          "a step after which an allele with integer count 0 is present again is reported under C10.lost with the operation as "
          "site; the history relations (bracket w.r.t. ancestors, monotone) restart at that generation instead of reporting the "
          "same event again",
          "for DenseAdditiveDominanceLinearGenomicModel the limits and the bracketed values are those of the genomic *breeding* "
          "value gebv() (additive part); gegv*/predict* are used as routes only where they return that value",
          "the limits of a population object are those of the individuals it holds at the moment of the call, whatever was read from "
          "the same object before (objects changed in place by remove/append/incorp/reorder, copies); in-place steps are closed "
          "steps: a cull is a selection, added rows are progeny of members, re-united cohorts are the same individuals again",
          "every way of reading the members' breeding values from the matrix gebv() returned (first or later read, subset, extremes, "
          "copy, data frame) is a report of those breeding values and has to lie inside the limits; the unphased twin object is "
          "judged only while it still holds the genotypes of the phased object",
          "unmodelled: in-place operations along the variant axis (they change the model's loci), DenseLinearGenomicModel (same limit code, abstract in this tree), the library's selection protocols (selection is an index list chosen by the harness)"]
TIMEOUT = {"quick": 900, "thorough": 3 * 3600}

PROTOS = [("SelfCross", 1), ("TwoWayCross", 2), ("TwoWayDHCross", 2), ("ThreeWayCross", 3), ("ThreeWayDHCross", 3),
          ("FourWayCross", 4), ("FourWayDHCross", 4)]
# N for which N * fl(1/N) != 1 (generic reciprocal-multiply hazard), as population sizes for ploidy 1, 2, 4
CRITN = [N for N in range(1, 800) if (1.0 / N) * N != 1.0]
CRIT = {pl: [N // pl for N in CRITN if N % pl == 0 and N // pl <= 200] for pl in (1, 2, 3, 4)}
NEIGH = [48, 50, 97, 99, 102, 104, 100, 64, 128, 32, 16]
SMALL = [1, 2, 3, 4, 5, 6, 7, 8, 10, 12, 15, 20, 24]


def proto_class(name):
    import importlib
    return getattr(importlib.import_module("pybrops.breed.prot.mate." + name), name)


def pick_size(g, ploidy=2, cap=None):
    r = g.random()
    if r < 0.45:
        s = int(g.choice(CRIT[ploidy]))
    elif r < 0.6:
        s = int(g.choice(NEIGH))
    elif r < 0.8:
        s = int(g.choice(SMALL))
    else:
        s = int(g.integers(1, 200))
    if cap is not None and s > cap:
        c = [x for x in CRIT[ploidy] + NEIGH + SMALL if x <= cap]
        s = int(g.choice(c)) if c and g.random() < 0.8 else int(g.integers(1, cap + 1))
    return s


# ---------------------------------------------------------------- generators
def gen_effects(g, m, ntrait):
    u = numpy.empty((m, ntrait)); cls = []
    for k in range(ntrait):
        c = ["gauss", "gauss+zeros", "integers", "all-negative", "all-positive", "all-zero", "magnitudes", "gauss+zeros"][int(g.integers(8))]
        if c == "gauss":
            col = g.normal(size=m)
        elif c == "gauss+zeros":
            col = g.normal(size=m); z = g.random(m) < 0.35; col[z] = 0.0
            col[z & (g.random(m) < 0.5)] = -0.0
        elif c == "integers":
            col = g.integers(-3, 4, m).astype(float)
        elif c == "all-negative":
            col = -numpy.abs(g.normal(size=m)) - (0.0 if g.random() < 0.5 else 1e-3)
        elif c == "all-positive":
            col = numpy.abs(g.normal(size=m))
        elif c == "all-zero":
            col = numpy.zeros(m)
        else:
            col = g.choice([-1.0, 1.0], m) * 10.0 ** g.uniform(-6, 6, m)
        u[:, k] = col; cls.append(c)
    # joint architecture across markers and traits (who has an effect on what)
    r = g.random()
    arch = "independent columns"
    if r < 0.5:
        arch = ["sparse", "sparse", "single QTL", "cancelling across traits", "cancelling across traits, sparse",
                "trait-specific markers", "cancelling within a trait", "zero in some traits only"][int(g.integers(8))]
        if arch in ("sparse", "single QTL", "cancelling across traits, sparse"):
            k = 1 if arch == "single QTL" else int(g.integers(1, max(2, m // 4 + 1)))
            keep = numpy.zeros(m, bool); keep[g.choice(m, min(k, m), replace=False)] = True
            u[~keep] = 0.0
        if arch.startswith("cancelling across traits") and ntrait >= 2:
            # rows whose entries are non-zero but sum to exactly 0.0 (dyadic values: the cancellation is exact in any order)
            rows = numpy.flatnonzero(numpy.any(u != 0, axis=1)) if "sparse" in arch else numpy.flatnonzero(g.random(m) < 0.6)
            if len(rows) == 0:
                rows = numpy.array([int(g.integers(m))])
            for j in rows:
                a = float(g.integers(1, 17)) / 8.0 * float(g.choice([-1.0, 1.0]))
                if ntrait == 2 or g.random() < 0.5:
                    t0, t1 = g.choice(ntrait, 2, replace=False)
                    u[j] = 0.0; u[j, t0] = a; u[j, t1] = -a
                else:
                    b = float(g.integers(1, 17)) / 8.0
                    u[j] = g.permutation(numpy.array([a, b, -(a + b)]))
        elif arch == "trait-specific markers":
            own = g.integers(0, ntrait, m)
            for k in range(ntrait):
                u[own != k, k] = 0.0
        elif arch == "cancelling within a trait":   # pairs of markers +a / -a: column sums are exactly 0.0
            perm = g.permutation(m)
            for i in range(0, m - 1, 2):
                a = numpy.round(g.normal(size=ntrait) * 8.0) / 8.0 + 0.125
                u[perm[i]] = a; u[perm[i + 1]] = -a
        elif arch == "zero in some traits only":
            u[g.random((m, ntrait)) < 0.5] = 0.0
    cls.append(arch)
    return u, cls


def gen_founder_mat(g, n, m, ploidy, fcls):
    if fcls == "random":
        mat = g.integers(0, 2, (ploidy, n, m))
    elif fcls == "skewed":
        p = g.beta(0.3, 0.3, m)
        mat = (g.random((ploidy, n, m)) < p[None, None, :])
    elif fcls == "inbred":
        mat = numpy.repeat(g.integers(0, 2, (1, n, m)), ploidy, axis=0)
    elif fcls == "singletons":
        mat = numpy.zeros((ploidy, n, m), dtype=int)
        for j in range(m):
            mat[int(g.integers(ploidy)), int(g.integers(n)), j] = 1
        flip = g.random(m) < 0.5
        mat[:, :, flip] = 1 - mat[:, :, flip]
    elif fcls == "complementary":
        line = g.integers(0, 2, (1, 1, m))
        mat = numpy.repeat(numpy.concatenate([line, 1 - line] * ((n + 1) // 2), axis=1)[:, :n], ploidy, axis=0)
    else:  # fixed
        mat = numpy.repeat(numpy.repeat(g.integers(0, 2, (1, 1, m)), n, axis=1), ploidy, axis=0)
    return numpy.ascontiguousarray(mat).astype("int8")


def gen_huge_founders(g, n, m):
    """Very large founder population in which most loci are one or two copies away from loss / fixation.

    Returns (matrix, indices of the individuals that carry a rare copy)."""
    mat = numpy.empty((2, n, m), dtype="int8")
    carriers = []
    for j in range(m):
        base = int(g.integers(0, 2)); mat[:, :, j] = base
        kind = ["one copy", "one copy", "two copies, two carriers", "two copies, one carrier", "none", "five copies"][int(g.integers(6))]
        if j == 0 and kind == "none":
            kind = "one copy"
        k = {"one copy": 1, "two copies, two carriers": 2, "two copies, one carrier": 1, "none": 0, "five copies": 5}[kind]
        who = g.choice(n, k, replace=False) if k else []
        for i in who:
            if kind == "two copies, one carrier":
                mat[:, i, j] = 1 - base
            else:
                mat[int(g.integers(2)), i, j] = 1 - base
            carriers.append(int(i))
    return mat, numpy.unique(numpy.array(carriers, dtype="int64"))


def make_pop(g, mat, nchr, ungrouped=False):
    from pybrops.popgen.gmat.DensePhasedGenotypeMatrix import DensePhasedGenotypeMatrix
    ploidy, n, m = mat.shape
    chrgrp = GP.chrom_layout(g, m, nchr)
    xo = GP.make_xoprob(g, chrgrp, ["zero", "half", "mixed", "random", "random", "haldane"][int(g.integers(6))])
    phypos = numpy.arange(1, m + 1, dtype="int64") * 10
    if ungrouped:   # panel order: chromosomes interleaved, positions unsorted; valid input (mate() only needs vrnt_xoprob)
        perm = g.permutation(m); chrgrp = chrgrp[perm]; phypos = phypos[g.permutation(m)]
    pg = DensePhasedGenotypeMatrix(
        mat, taxa=numpy.array(["f%03d" % i for i in range(n)], dtype=object), taxa_grp=g.integers(0, 3, n).astype("int64"),
        vrnt_chrgrp=chrgrp, vrnt_phypos=phypos,
        vrnt_name=numpy.array(["m%03d" % i for i in range(m)], dtype=object), vrnt_genpos=numpy.cumsum(g.uniform(0.001, 0.3, m)),
        vrnt_xoprob=xo)
    if not ungrouped:
        pg.group_vrnt()
    return pg


def make_model(g, u, ntrait, mat0):
    """A model of one of the classes that inherit the limit code.  Returns (model, beta, has_unscale, effects u_a, kind).

    kinds: plain additive | additive with u_misc | additive+dominance (u_d omitted / non-zero, with / without u_misc) |
    rrBLUPModel0 fitted to phenotypes simulated on the founders (its estimated effects are then *the* effects)."""
    from pybrops.model.gmod.DenseAdditiveLinearGenomicModel import DenseAdditiveLinearGenomicModel
    from pybrops.model.gmod.DenseAdditiveDominanceLinearGenomicModel import DenseAdditiveDominanceLinearGenomicModel
    q = int(g.choice([1, 1, 2, 3]))
    beta = g.normal(size=(q, ntrait)) * float(g.choice([0.0, 1.0, 10.0, 100.0]))
    if g.random() < 0.3:
        beta = numpy.round(beta)
    trait = numpy.array(["T%d" % k for k in range(ntrait)], dtype=object)
    m = u.shape[0]
    r = g.random()
    misc = (lambda: g.normal(size=(int(g.integers(1, 5)), ntrait)) * float(g.choice([1.0, 10.0])))
    # (DenseLinearGenomicModel has the same limit code but is abstract in this tree: not drivable)
    if r < 0.55 or mat0.shape[1] > 5000 or (r >= 0.90 and (mat0.shape[1] > 200 or m > 60)):   # (a fit needs an n x n eigenproblem)
        return DenseAdditiveLinearGenomicModel(beta=beta, u_misc=None, u_a=u.copy(), trait=trait), beta, True, u, "plain additive model"
    if r < 0.67:
        return (DenseAdditiveLinearGenomicModel(beta=beta, u_misc=misc(), u_a=u.copy(), trait=trait), beta, True, u,
                "additive model with u_misc")
    if r < 0.90:
        sub = int(g.integers(4))
        u_d = None if sub < 2 else g.normal(size=(m, ntrait)) * float(g.choice([0.5, 1.0, 5.0]))
        u_m = None if sub % 2 == 0 else misc()
        return (DenseAdditiveDominanceLinearGenomicModel(beta=beta, u_misc=u_m, u_a=u.copy(), u_d=u_d, trait=trait), beta, True, u,
                "additive+dominance model" + (", u_d omitted" if u_d is None else "") + (", u_misc present" if u_m is not None else ""))
    try:
        from pybrops.model.gmod.rrBLUPModel0 import rrBLUPModel0
        Z = mat0.astype("int64").sum(0)
        Y = Z @ u + g.normal(size=(Z.shape[0], ntrait)) * (0.5 + numpy.abs(Z @ u).std(0)) + g.normal(size=ntrait) * 10.0
        fit = rrBLUPModel0.fit_numpy(Y, numpy.ones((Z.shape[0], 1)), Z.astype("int8") if g.random() < 0.5 else Z.astype(float), trait=trait)
        ua = numpy.asarray(fit.u_a, dtype=float)
        if ua.shape == u.shape and numpy.all(numpy.isfinite(ua)) and numpy.all(numpy.isfinite(fit.beta)):
            return fit, numpy.asarray(fit.beta, dtype=float), True, ua.copy(), "rrBLUPModel0 fit"
    except Exception:
        pass
    return DenseAdditiveLinearGenomicModel(beta=beta, u_misc=None, u_a=u.copy(), trait=trait), beta, True, u, "plain additive model"


# ---------------------------------------------------------------- one breeding value matrix, consulted several times
BVM_READS = ["unscale", "unscale", "select_taxa", "select_taxa", "tmax/tmin", "copy", "deepcopy", "to_pandas", "attributes",
             "delete_taxa", "reorder_taxa in place", "remove_taxa in place"]


def reuse_reads(ctx, mon, model, pg, Z, gref, offset, ploidy, gr, gdev):
    """A programme computes gebv(population) once and consults the *same* matrix object several times (limits check,
    ranking, report of the selected).  Every read is a report of the members' breeding values: all of them are handed to
    the monitor (list of (k, ntrait) arrays), whatever was read before from the same object."""
    out = []
    n = gref.shape[0]
    src = "phased" if gr.random() < 0.6 else "ndarray"
    try:
        bv = model.gebv(pg if src == "phased" else Z)
    except Exception as e:
        ctx.raised("gebv(%s)" % src, e); return out
    rows = numpy.arange(n)       # row of the object -> member of the population (in-place row operations are followed here)
    ref = gref + offset
    tol = mon.tol(ploidy, offset)
    for i in range(int(gr.integers(2, 5))):
        kind = BVM_READS[int(gr.integers(len(BVM_READS)))]
        nn = len(rows)
        if (kind == "to_pandas" and nn > 20000) or (kind in ("remove_taxa in place", "delete_taxa") and nn < 2):
            kind = "unscale"
        want = ref[rows]
        meth = kind.split(" ")[0]
        try:
            if kind == "unscale":
                val = bv.unscale()
            elif kind == "select_taxa":
                ix = gr.choice(nn, int(gr.integers(1, min(nn, 50) + 1)), replace=bool(gr.random() < 0.2))
                val = bv.select_taxa(ix if gr.random() < 0.7 else ix.tolist()).unscale(); want = want[ix]
            elif kind == "tmax/tmin":
                val = numpy.stack([numpy.asarray(bv.tmax(unscale=True), dtype=float), numpy.asarray(bv.tmin(unscale=True), dtype=float)])
                want = numpy.stack([want.max(0), want.min(0)]); meth = "tmax"
            elif kind == "copy":
                val = (bv.copy() if gr.random() < 0.5 else __import__("copy").copy(bv)).unscale()
            elif kind == "deepcopy":
                val = (bv.deepcopy() if gr.random() < 0.5 else __import__("copy").deepcopy(bv)).unscale()
            elif kind == "to_pandas":
                val = bv.to_pandas(unscale=True).iloc[:, -gref.shape[1]:].to_numpy(dtype=float)
            elif kind == "attributes":
                val = numpy.asarray(bv.mat, dtype=float) * numpy.asarray(bv.scale, dtype=float) + numpy.asarray(bv.location, dtype=float); meth = "mat"
            elif kind == "delete_taxa":
                drop = gr.choice(nn, int(gr.integers(1, min(nn - 1, 50) + 1)), replace=False)
                val = bv.delete_taxa(drop).unscale(); want = numpy.delete(want, drop, axis=0)
            elif kind == "reorder_taxa in place":
                perm = gr.permutation(nn)
                bv.reorder_taxa(perm); rows = rows[perm]; want = ref[rows]
                val = bv.unscale()
            else:   # the report is narrowed to the selected in place
                drop = gr.choice(nn, int(gr.integers(1, min(nn - 1, 50) + 1)), replace=False)
                bv.remove_taxa(drop if gr.random() < 0.7 else drop.tolist()); rows = numpy.delete(rows, drop); want = ref[rows]
                val = bv.unscale()
        except Exception as e:
            ctx.raised("breeding value matrix read: " + kind, e)
            if "in place" in kind:
                break       # (the state of the object is unknown)
            continue
        label = "read %s of a breeding value matrix (%s)" % ("1" if i == 0 else "2+", kind)
        ctx.sumnote("breeding value matrix reads: " + kind)
        if i > 0:
            ctx.hook("second or later reads of one breeding value matrix object")
        val = numpy.asarray(val, dtype=float)
        if val.shape == want.shape and numpy.all(numpy.isfinite(val)):
            out.append(val)
            if not numpy.all(numpy.abs(val - want) <= tol) and "un" not in gdev:
                # a first read names the method read through; a later read names the object (whose stored state the earlier
                # reads may have changed) - whichever method happened to be the one that saw it
                gdev["un"] = (("gebv", label, "%s.%s" % (O.defining_class(bv, meth), meth), "first read of a breeding value matrix object")
                              if i == 0 else
                              ("gebv", label, "%s (object state after earlier reads)" % type(bv).__mro__[1].__name__
                               if type(bv).__name__ == "DenseGenomicEstimatedBreedingValueMatrix" else type(bv).__name__ + " (object state after earlier reads)",
                               "second or later read of the same breeding value matrix object"))
                ctx.sumnote("%s is not definition + constant (judged as reported)" % label)
        else:
            ctx.sumnote("%s unusable (shape / non-finite)" % label)
    return out


# ---------------------------------------------------------------- observation of one generation
def read_generation(ctx, mon, model, has_unscale, genotyper, pg, t, op, opsite, g, icls=None, twin=None, gr=None):
    """Call the real usl/lsl/gebv/afreq on population ``pg`` through every input form and hand the numbers to the monitor.

    twin: dict carrying the unphased matrix object of the population from one generation to the next (it then went through
          the same in-place / copy / select operations as ``pg``); gr: generator of the object-reuse reads (own stream)."""
    mat = numpy.asarray(pg.mat)
    ploidy = int(mat.shape[0]); n = int(mat.shape[1])
    Zi = mat.astype(numpy.int64).sum(0)
    gref = Zi @ mon.u               # oracle: breeding value without intercept, from the integer genotypes
    u_scale = mon.tol(ploidy, 0.0)
    # library-reported breeding values
    # The limits promise to bracket the breeding values the model reports for the individuals, so those are judged as
    # reported; when they are not genotype @ effects (+ one constant per trait) the monitor is only told so for the key.
    # Every public route to a member's breeding value is read (two fixed ones plus one rotating extra per scaling); the
    # values of all routes are stacked, so each of them has to lie inside the limits.
    gsc, gun, offset, gdev = gref, None, numpy.zeros(gref.shape[1]), {}
    try:
        Z = pg.mat_asformat("{0,1,2}")
    except Exception as e:
        ctx.raised("mat_asformat", e); Z = Zi.astype("int8")
    nq = int(numpy.asarray(model.beta).shape[0])
    sc_routes = [("gebv_numpy", "gebv_numpy", lambda: model.gebv_numpy(Z))]
    # gegv* are breeding-value routes only where they are not overridden with a genotypic value (dominance model);
    # predict* only where the random-effect design matrix is the marker matrix (no u_misc, no dominance columns)
    isbv = type(model).gegv_numpy is getattr(__import__("pybrops.model.gmod.DenseAdditiveLinearGenomicModel", fromlist=["x"]),
                                             "DenseAdditiveLinearGenomicModel").gegv_numpy
    onlymarkers = int(model.nexplan_u) == int(Z.shape[1])
    extra = [("gebv_numpy", "gebv_numpy(float64 genotypes)", lambda: model.gebv_numpy(Z.astype("float64")))]
    if isbv:
        extra.append(("gegv_numpy", "gegv_numpy", lambda: model.gegv_numpy(Z)))
    if onlymarkers:
        extra.append(("predict_numpy", "predict_numpy(X = 0)", lambda: model.predict_numpy(numpy.zeros((n, nq)), Z)))
    sc_routes.append(extra[int(g.integers(len(extra)))])
    got = []
    for meth, label, fn in sc_routes:
        try:
            lib = numpy.asarray(fn(), dtype=float); ctx.hook("breeding-value route: " + label)
        except Exception as e:
            ctx.raised(label, e); continue
        if lib.shape == gref.shape and numpy.all(numpy.isfinite(lib)):
            got.append(lib)
            if not numpy.all(numpy.abs(lib - gref) <= u_scale) and "sc" not in gdev:
                gdev["sc"] = (meth, label); ctx.sumnote("%s differs from the integer definition (judged as reported)" % label)
        else:
            ctx.sumnote("%s unusable (shape / non-finite)" % label)
    if got:
        gsc = numpy.concatenate(got, axis=0)
    xstar = numpy.full((n, nq), 1.0 / nq); xstar[:, 0] = 1.0      # the covariate contrast gebv() documents for its location
    offset = xstar[0] @ numpy.asarray(model.beta, dtype=float)   # intercept by the documented contrast (see ASSUME)
    un_routes = [("gebv", "gebv(phased).unscale()", lambda: model.gebv(pg).unscale())]
    extra = [("gebv", "gebv(ndarray).unscale()", lambda: model.gebv(Z).unscale())]
    if isbv:
        extra.append(("gegv", "gegv(phased).unscale()", lambda: model.gegv(pg).unscale()))
    if onlymarkers:
        extra += [("predict", "predict(contrast, phased).unscale()", lambda: model.predict(xstar, pg).unscale()),
                  ("predict_numpy", "predict_numpy(contrast)", lambda: model.predict_numpy(xstar, Z))]
    un_routes.append(extra[int(g.integers(len(extra)))])
    got = []
    for meth, label, fn in un_routes:
        try:
            lib = numpy.asarray(fn(), dtype=float); ctx.hook("breeding-value route: " + label)
        except Exception as e:
            ctx.raised(label, e); continue
        if lib.shape == gref.shape and numpy.all(numpy.isfinite(lib)):
            d = lib - gref
            got.append(lib)
            if not numpy.all(numpy.abs(d - offset) <= mon.tol(ploidy, offset)) and "un" not in gdev:
                gdev["un"] = (meth, label); ctx.sumnote("%s is not definition + constant (judged as reported)" % label)
        else:
            ctx.sumnote("%s unusable (shape / non-finite)" % label)
    if gr is not None and gr.random() < (0.5 if n <= 20000 else 0.25):
        got += reuse_reads(ctx, mon, model, pg, Z, gref, offset, ploidy, gr, gdev)
    if got:
        gun = numpy.concatenate(got, axis=0)
    # input forms
    views = []
    count = mat.astype(numpy.int64).sum((0, 1))
    pex = count / float(ploidy * n)   # correctly rounded frequency: exactly 0 / 1 iff count is 0 / ploidy*n
    kw = (lambda uns: {"unscale": uns}) if has_unscale else (lambda uns: {})
    views.append(("frequency", None, lambda uns: (model.usl_numpy(pex, ploidy, **kw(uns)), model.lsl_numpy(pex, ploidy, **kw(uns)))))
    views.append(("phased", pg, lambda uns: (model.usl(pg, **kw(uns)), model.lsl(pg, **kw(uns)))))
    ug = twin.get("ug") if twin is not None else None
    if ug is not None:   # the unphased object of the previous generation, taken through the same operation as ``pg``
        try:
            same = numpy.array_equal(numpy.asarray(ug.mat), Zi)
        except Exception:
            same = False
        if same:
            ctx.hook("unphased matrix objects carried through an operation instead of being genotyped afresh")
        else:   # (what the operation did to the rows of that object is not this property's business)
            ctx.sumnote("unphased twin object no longer holds the genotypes of the phased object (dropped, not judged)"); ug = None
    try:
        if ug is None:
            ug = genotyper.genotype(pg)
        views.append(("unphased", ug, lambda uns: (model.usl(ug, **kw(uns)), model.lsl(ug, **kw(uns)))))
    except Exception as e:
        ctx.raised("DenseUnphasedGenotyping.genotype", e); ug = None
    if twin is not None:
        twin["ug"] = ug
    if ploidy == 2 and g.random() < 0.5:
        views.append(("ndarray", None, lambda uns: (model.usl(Z, **kw(uns)), model.lsl(Z, **kw(uns)))))   # default ploidy
    else:
        views.append(("ndarray", None, lambda uns: (model.usl(Z, ploidy=ploidy, **kw(uns)), model.lsl(Z, ploidy=ploidy, **kw(uns)))))
    limits, afreqs = {}, {}
    for name, obj, fn in views:
        by = {}
        for sc, uns in ((("sc", False), ("un", True)) if has_unscale else (("sc", False),)):
            try:
                by[sc] = fn(uns); ctx.hook("usl/lsl calls", 2)
            except Exception as e:
                ctx.raised("usl/lsl (%s input)" % name, e)
        limits[name] = by
        if obj is not None:
            try:
                afreqs[name] = (obj.afreq(), O.defining_class(obj, "afreq"))
            except Exception as e:
                ctx.raised("afreq (%s)" % name, e)
    ctx.sumnote("generations fixed at all loci" if numpy.all((count == 0) | (count == ploidy * n)) else "generations with segregating loci")
    fq = count / float(ploidy * n)
    if numpy.any(((fq > 0.0) & (fq <= 1e-5)) | ((fq < 1.0) & (fq >= 1.0 - 1e-5))):
        ctx.hook("generations with an allele frequency within 1e-5 of 0 or 1 but not equal to it")
    if n > 4096:
        ctx.hook("generations with more than 4096 taxa")
    if (ploidy * n) in CRITN:
        ctx.hook("generations at a reciprocal-rounding-critical size")
    if mon.gens and O.is_pow2(mon.gens[-1].N) != O.is_pow2(ploidy * n):
        ctx.hook("transitions between ploidy*n a power of two and not a power of two")
    return mon.observe(t, op, opsite, mat, ploidy, limits, afreqs, gsc, gun, offset, icls=icls, gdev=gdev), gref


SUBSET_ICLS = "parents named in xconfig are a proper subset of the matrix mated from"


def side_check_parents(ctx, mon, model, parents_pg, prog, site, op):
    """Progeny that are merged with survivors: they still descend from the parents named in the cross table only.
    (a) their GEBVs lie inside the limits of exactly those parents, (b) they carry no allele those parents lack."""
    pm = numpy.asarray(parents_pg.mat).astype(numpy.int64); qm = numpy.asarray(prog.mat).astype(numpy.int64)
    pc = pm.sum((0, 1)); qc = qm.sum((0, 1)); Np = pm.shape[0] * pm.shape[1]; Nq = qm.shape[0] * qm.shape[1]
    w = lambda **kw: (lambda: dict({"operation": op, "history": list(mon.history), "parent_allele_count": pc, "progeny_allele_count": qc,
                                    "u_a": mon.u}, **kw))
    mon.chk("C10.lost", not numpy.any((pc == 0) & (qc != 0)), (site, SUBSET_ICLS), "allele 1 with integer count 0 stays absent", witness=w())
    mon.chk("C10.lost", not numpy.any((pc == Np) & (qc != Nq)), (site, SUBSET_ICLS), "allele 0 with integer count 0 stays absent", witness=w())
    try:
        usl = numpy.asarray(model.usl(parents_pg), dtype=float).ravel(); lsl = numpy.asarray(model.lsl(parents_pg), dtype=float).ravel()
        ctx.hook("usl/lsl calls", 2)
    except Exception as e:
        ctx.raised("usl/lsl (phased input)", e); return
    gq = qm.sum(0) @ mon.u
    tol = mon.tol(pm.shape[0], 0.0)
    closed = not (numpy.any((pc == 0) & (qc != 0)) or numpy.any((pc == Np) & (qc != Nq)))
    if closed:   # otherwise the same event was just reported under C10.lost
        # key: a limit that is off the reference of the named parents points at the model, a correct one at the mating step
        ru, rl = O.tight_reference(mon.u, pc > 0, pc == Np, pm.shape[0])
        su = (site, SUBSET_ICLS) if usl.shape == ru.shape and numpy.all(numpy.abs(usl - ru) <= tol) else \
            ("%s.usl_numpy" % O.defining_class(model, "usl_numpy"), "any input form" + mon.mkind)
        sl = (site, SUBSET_ICLS) if lsl.shape == rl.shape and numpy.all(numpy.abs(lsl - rl) <= tol) else \
            ("%s.lsl_numpy" % O.defining_class(model, "lsl_numpy"), "any input form" + mon.mkind)
        mon.chk("C10.bracket", bool(numpy.all(gq.max(0) <= usl + tol)), su, "usl of an ancestor population >= GEBV of every descendant",
                witness=w(usl=usl, gebv_max=gq.max(0), tol=tol))
        mon.chk("C10.bracket", bool(numpy.all(gq.min(0) >= lsl - tol)), sl, "lsl of an ancestor population <= GEBV of every descendant",
                witness=w(lsl=lsl, gebv_min=gq.min(0), tol=tol))


# ---------------------------------------------------------------- selection rules (harness side)
def select(g, gref, nsel, rule):
    n = gref.shape[0]
    nsel = max(1, min(nsel, n))
    k = int(g.integers(gref.shape[1]))
    if rule == "best":
        ix = numpy.argsort(-gref[:, k], kind="stable")[:nsel]
    elif rule == "worst":
        ix = numpy.argsort(gref[:, k], kind="stable")[:nsel]
    elif rule == "all":
        ix = numpy.arange(n)
    else:
        ix = g.choice(n, nsel, replace=False)
    if g.random() < 0.5:
        ix = numpy.sort(ix)
    return numpy.asarray(ix, dtype="int64")


def split_positive(g, total, parts):
    """``parts`` positive integers summing to ``total`` (parts <= total)."""
    if parts == 1:
        return numpy.array([total], dtype="int64")
    cuts = numpy.sort(g.choice(numpy.arange(1, total), parts - 1, replace=False))
    return numpy.diff(numpy.r_[0, cuts, total]).astype("int64")


INT_DTYPES = ["int8", "uint8", "int16", "uint16", "int32", "uint32", "int64"]
NARROW_ICLS = "narrow-integer cross table (parent index * nvrnt exceeds its dtype)"


def index_array(g, a, narrow_bias=0.35, need=None):
    """The same integer values in one of the integer dtypes that can hold them (``need`` = largest value that must fit),
    C-ordered, F-ordered or as a strided / reversed view of a larger buffer.  Returns (array, dtype name, layout)."""
    a = numpy.asarray(a, dtype="int64")
    mx = int(max(a.max(initial=0), need or 0))
    fit = [d for d in INT_DTYPES if numpy.iinfo(d).max >= mx]
    r = g.random()
    dt = fit[0] if r < narrow_bias else (str(g.choice(fit)) if r < 0.7 else "int64")
    b = a.astype(dt)
    lay = str(g.choice(["C", "C", "F", "strided", "reversed"]))
    if lay == "F" and b.ndim == 2:
        b = numpy.asfortranarray(b)
    elif lay == "strided":
        buf = numpy.full(tuple(2 * k + 1 for k in b.shape), numpy.iinfo(dt).max, dtype=dt)
        sl = tuple(slice(1, None, 2) for _ in b.shape)
        buf[sl] = b; b = buf[sl]
    elif lay == "reversed":
        sl = tuple(slice(None, None, -1) for _ in b.shape)
        b = numpy.ascontiguousarray(b[sl])[sl]
    assert numpy.array_equal(b.astype("int64"), a)
    return b, dt, lay


def do_mate(ctx, g, protos, pg, gref, size, force=None):
    """One mating step among members of ``pg``; returns (progeny, op description, site)."""
    name, npar = force if force else PROTOS[int(g.integers(len(PROTOS)))]
    if name not in protos:
        r = g.random(); s = int(g.integers(2 ** 31))
        rng = numpy.random.Generator(numpy.random.PCG64(s)) if r < 0.7 else numpy.random.RandomState(s)
        protos[name] = proto_class(name)(rng=rng)
    rule = str(g.choice(["best", "worst", "random", "all", "pair", "single"], p=[0.27, 0.2, 0.25, 0.13, 0.1, 0.05]))
    n = pg.ntaxa
    nsel = {"pair": 2, "single": 1, "all": n}.get(rule, int(g.integers(1, min(n, 8) + 1)))
    pool = select(g, gref, nsel, "random" if rule in ("pair", "single") else rule)
    ncross = int(g.integers(1, min(size, 6) + 1))
    if g.random() < 0.6 or len(pool) < npar:
        xc = g.choice(pool, (ncross, npar))                    # selfs / repeated parents possible
    else:
        xc = numpy.stack([g.choice(pool, npar, replace=False) for _ in range(ncross)])
    xc64 = numpy.asarray(xc, dtype="int64")
    # cross tables arrive in every integer dtype and memory layout (they come from optimisers, files, user code)
    xc, xdt, xlay = index_array(g, xc64)
    if g.random() < 0.8:
        nmating = 1 if g.random() < 0.5 else numpy.ones(ncross, dtype="int64")
        nprogeny = split_positive(g, size, ncross)
        if ncross == 1 and g.random() < 0.5:
            nprogeny = int(size)
    else:
        nmating = g.integers(1, 4, ncross).astype("int64"); nprogeny = g.integers(1, 6, ncross).astype("int64")
    tot = int(numpy.sum(numpy.broadcast_to(nmating, (ncross,)) * numpy.broadcast_to(nprogeny, (ncross,))))
    cdt = ["int64", "int64"]
    if g.random() < 0.5:   # count vectors in other integer dtypes too (wide enough for every count, product and the total)
        if isinstance(nmating, numpy.ndarray):
            nmating, cdt[0], _ = index_array(g, nmating, narrow_bias=0.2, need=tot)
        if isinstance(nprogeny, numpy.ndarray):
            nprogeny, cdt[1], _ = index_array(g, nprogeny, narrow_bias=0.2, need=tot)
    nself = int(g.choice([0, 0, 0, 0, 0, 0, 1, 2]))
    over = int(xc64.max()) * int(pg.nvrnt) + int(pg.nvrnt) - 1 > numpy.iinfo(xdt).max
    op = {"op": "mate", "protocol": name, "parents": rule, "xconfig": xc64.tolist(), "xconfig_dtype": xdt, "xconfig_layout": xlay,
          "index_times_nvrnt_exceeds_dtype": bool(over), "nmating": numpy.asarray(nmating).tolist(),
          "nprogeny": numpy.asarray(nprogeny).tolist(), "count_dtypes": cdt, "nself": nself}
    ctx.sumnote("cross tables: dtype " + xdt); ctx.sumnote("cross tables: layout " + xlay)
    if over:
        ctx.hook("matings with a cross table whose dtype cannot hold parent index * nvrnt")
        ctx.sumnote("cross tables whose dtype cannot hold parent index * nvrnt: " + xdt)
    out = protos[name].mate(pg, xc, nmating, nprogeny, nself=nself)
    ctx.hook("mate calls"); ctx.sumnote("mate calls: " + name)
    return out, op, name + ".mate"


def do_subset(ctx, g, pg, gref, size):
    rule = ["best", "worst", "random", "random"][int(g.integers(4))]
    ix64 = select(g, gref, size, rule)
    ix, idt, ilay = index_array(g, ix64)
    out = pg.select_taxa(ix)
    ctx.hook("select_taxa calls"); ctx.sumnote("select_taxa index arrays: dtype " + idt)
    return (out, {"op": "select_taxa", "rule": rule, "indices": ix64.tolist(), "index_dtype": idt, "index_layout": ilay},
            O.defining_class(pg, "select_taxa") + ".select_taxa")


# ---------------------------------------------------------------- pool management in place (family 'pool')
# The population object whose limits / frequencies were read is changed in place (or copied) and read again.  The unphased
# matrix object of the population ("twin") goes through the same calls.
POOL_KINDS = ["cull", "cull", "cull", "cull", "grow", "grow", "regroup", "regroup", "reorder", "copy", "reread", "mate", "subset",
              "delete", "dhpool"]
INPLACE_KINDS = ("cull", "grow", "regroup", "reorder")


def drop_form(g, drop, n):
    """The rows to remove as index array (any integer dtype / layout, any order, possibly negative), list, int, slice, mask."""
    drop = numpy.sort(numpy.asarray(drop, dtype="int64"))
    forms = ["array", "array", "negative indices", "list", "mask"]
    if len(drop) == 1:
        forms += ["int", "int"]
    if len(drop) >= 1 and int(drop[-1] - drop[0]) == len(drop) - 1:
        forms += ["slice", "slice", "slice"]
    f = forms[int(g.integers(len(forms)))]
    if f == "array":
        a, dt, lay = index_array(g, drop if g.random() < 0.5 else g.permutation(drop))
        return a, "index array %s" % dt
    if f == "negative indices":
        return drop - n, "index array of negative indices"
    if f == "list":
        return [int(x) for x in drop], "list"
    if f == "mask":
        mk = numpy.zeros(n, dtype=bool); mk[drop] = True
        return mk, "boolean mask"
    if f == "int":
        return int(drop[0]), "int"
    return slice(int(drop[0]), int(drop[-1]) + 1), "slice"


def apply_inplace(ctx, pg, twin, fn, *args):
    """fn(object, *values) on the phased object (exceptions propagate) and on its unphased twin (``args`` = pairs)."""
    fn(pg, *[a[0] for a in args])
    ug = twin.get("ug")
    if ug is not None:
        try:
            if any(a[1] is None for a in args):
                raise ValueError("no unphased counterpart of the values")
            fn(ug, *[a[1] for a in args])
        except Exception as e:
            ctx.raised("operation on the unphased twin object", e); twin["ug"] = None


def do_cull(ctx, g, pg, twin, gref):
    """Selection by removing the others from the object itself."""
    n = pg.ntaxa
    size = 1 if g.random() < 0.45 else pick_size(g, 2, cap=n - 1)
    rule = ["best", "worst", "random", "head", "tail"][int(g.integers(5))]
    if rule == "head":
        keep = numpy.arange(size)
    elif rule == "tail":
        keep = numpy.arange(n - size, n)
    else:
        keep = select(g, gref, size, rule)
    drop = numpy.setdiff1d(numpy.arange(n), keep)
    obj, form = drop_form(g, drop, n)
    call = ["remove_taxa", "remove_taxa", "remove(axis=taxa_axis)", "remove(axis=-2)"][int(g.integers(4))]

    def fn(x):
        if call == "remove_taxa":
            x.remove_taxa(obj)
        elif call == "remove(axis=-2)":
            x.remove(obj, axis=-2)
        else:
            x.remove(obj, axis=x.taxa_axis)
    site = O.defining_class(pg, "remove_taxa") + ".remove_taxa"
    apply_inplace(ctx, pg, twin, fn)
    ctx.hook("in-place remove_taxa / remove calls on a population object whose limits had been read")
    ctx.sumnote("in-place removal: argument form " + form)
    return pg, {"op": "remove_taxa in place", "call": call, "rule": rule, "kept": numpy.sort(keep).tolist(), "argument_form": form}, site


def attach_call(g, n, k):
    """One of the in-place ways of adding ``k`` rows to an object of ``n`` rows: (description, fn(object, values), site name)."""
    call = ["append_taxa", "append_taxa", "append_taxa(ndarray, taxa=, taxa_grp=)", "append(axis=-2)", "incorp_taxa(int)",
            "incorp_taxa(positions)", "incorp(axis=-2, positions)", "incorp_taxa(int, ndarray, taxa=, taxa_grp=)"][int(g.integers(8))]
    pos = None
    if "int" in call:
        pos = int(g.choice([0, n, int(g.integers(0, n + 1))]))
    elif "positions" in call:
        pos = g.integers(0, n + 1, k)
        pos = numpy.sort(pos) if g.random() < 0.6 else pos
        # (numpy.insert adds offsets to a position array in place: signed, at least 32 bit)
        pos = numpy.asarray(pos, dtype=str(g.choice(["int64", "int32"]))) if g.random() < 0.6 else [int(x) for x in pos]

    def fn(x, v):
        if call == "append_taxa":
            x.append_taxa(v)
        elif call.startswith("append_taxa(ndarray"):
            x.append_taxa(v.mat, taxa=v.taxa, taxa_grp=v.taxa_grp)
        elif call == "append(axis=-2)":
            x.append(v, axis=-2)
        elif call.startswith("incorp_taxa(int, ndarray"):
            x.incorp_taxa(pos, v.mat, taxa=v.taxa, taxa_grp=v.taxa_grp)
        elif call.startswith("incorp_taxa"):
            x.incorp_taxa(pos, v)
        else:
            x.incorp(pos, v, axis=-2)
    name = "append_taxa" if call.startswith("append") else "incorp_taxa"
    return {"call": call, "positions": (numpy.asarray(pos).tolist() if pos is not None else None)}, fn, name


def do_grow(ctx, g, protos, genotyper, mon, model, pg, twin, gref):
    """Overlapping generations kept in one object: the progeny of some members are added to the object itself."""
    n = pg.ntaxa
    prog, op1, site1 = do_mate(ctx, g, protos, pg, gref, pick_size(g, cap=40))
    up = None
    if twin.get("ug") is not None:
        try:
            up = genotyper.genotype(prog)
        except Exception as e:
            ctx.raised("DenseUnphasedGenotyping.genotype", e)
    desc, fn, name = attach_call(g, n, prog.ntaxa)
    op = dict({"op": name + " in place (progeny added to their parents' population object)", "mating": op1}, **desc)
    par = numpy.unique(numpy.asarray(op1["xconfig"], dtype="int64"))
    if len(par) < n:
        side_check_parents(ctx, mon, model, pg.select_taxa(par), prog, site1, op)
        ctx.hook("select_taxa calls"); ctx.hook("matings whose named parents are a proper subset of the matrix mated from")
    pc = numpy.asarray(prog.mat).astype(numpy.int64).sum((0, 1))   # which step brought an allele back, if any?
    inprog = bool(numpy.any(mon.lost0 & (pc != 0)) or numpy.any(mon.lost1 & (pc != prog.ntaxa * 2)))
    site = site1 if inprog else O.defining_class(pg, name) + "." + name
    apply_inplace(ctx, pg, twin, fn, (prog, up))
    ctx.hook("in-place append_taxa / append / incorp_taxa / incorp calls on a population object whose limits had been read")
    ctx.sumnote("in-place addition: " + desc["call"])
    return pg, op, site, inprog


def do_regroup(ctx, g, genotyper, model, pg, twin, gref):
    """The population is split into two cohort objects; the first one is looked at on its own (limits, frequencies - a use of
    the object, not a generation of the history), then the second cohort is added to it in place: the same individuals as
    before, in another object with a past."""
    n = pg.ntaxa
    a_ix = select(g, gref, int(g.integers(1, n)), ["best", "worst", "random"][int(g.integers(3))])
    b_ix = numpy.setdiff1d(numpy.arange(n), a_ix)
    b_ix = g.permutation(b_ix) if g.random() < 0.5 else b_ix
    a = pg.select_taxa(a_ix); b = pg.select_taxa(b_ix); ctx.hook("select_taxa calls", 2)
    ua = ub = None
    try:
        uns = bool(g.random() < 0.5)
        model.usl(a, unscale=uns); model.lsl(a, unscale=uns); a.afreq(); ctx.hook("usl/lsl calls", 2)
        ua = genotyper.genotype(a); ub = genotyper.genotype(b)
        model.usl(ua, unscale=uns); model.lsl(ua, unscale=uns); ua.afreq(); ctx.hook("usl/lsl calls", 2)
    except Exception as e:
        ctx.raised("reads of the first cohort", e); ua = None
    desc, fn, name = attach_call(g, len(a_ix), len(b_ix))
    twin["ug"] = ua
    apply_inplace(ctx, a, twin, fn, (b, ub))
    ctx.hook("in-place append_taxa / append / incorp_taxa / incorp calls on a population object whose limits had been read")
    ctx.sumnote("in-place addition: " + desc["call"])
    op = dict({"op": name + " in place (two cohorts of the same population re-united)", "first_cohort": a_ix.tolist(),
               "second_cohort": b_ix.tolist()}, **desc)
    return a, op, O.defining_class(a, name) + "." + name


def do_reorder(ctx, g, pg, twin):
    n = pg.ntaxa
    call = ["reorder_taxa", "reorder_taxa", "sort_taxa", "group_taxa", "group_taxa + ungroup_taxa"][int(g.integers(5))]
    perm = g.permutation(n)

    def fn(x):
        if call == "reorder_taxa":
            x.reorder_taxa(perm)
        elif call == "sort_taxa":
            x.sort_taxa()
        else:
            x.group_taxa()
            if call.endswith("ungroup_taxa"):
                x.ungroup_taxa()
    name = call.split(" ")[0]
    site = O.defining_class(pg, name) + "." + name
    apply_inplace(ctx, pg, twin, fn)
    ctx.hook("in-place reorder_taxa / sort_taxa / group_taxa calls on a population object whose limits had been read")
    return pg, {"op": call + " in place"}, site


def do_copy(ctx, g, pg, twin):
    import copy
    call = ["copy()", "deepcopy()", "copy.copy", "copy.deepcopy"][int(g.integers(4))]
    fn = {"copy()": lambda x: x.copy(), "deepcopy()": lambda x: x.deepcopy(), "copy.copy": copy.copy, "copy.deepcopy": copy.deepcopy}[call]
    new = fn(pg)
    if twin.get("ug") is not None:
        try:
            twin["ug"] = fn(twin["ug"])
        except Exception as e:
            ctx.raised("copy of the unphased twin object", e); twin["ug"] = None
    name = "__deepcopy__" if "deep" in call else "__copy__"
    ctx.hook("generations read from a copy()/deepcopy() of a population object")
    return new, {"op": call}, O.defining_class(pg, name) + "." + name


# ---------------------------------------------------------------- one history
def case_history(ctx, c, family="hist"):
    from pybrops.breed.prot.gt.DenseUnphasedGenotyping import DenseUnphasedGenotyping
    g = ctx.rng(family, c)
    coords = [c, family]
    chain = family == "chain"
    huge = family == "huge"
    pool = family == "pool"
    twin = {"ug": None} if pool else None
    gr = ctx.rng(family, c, "reuse")     # own stream: reads that consult one breeding value matrix object several times
    ploidy = int(g.choice([1, 2, 4, 4, 1, 3])) if chain else 2
    fcls = ["random", "random", "skewed", "skewed", "skewed", "inbred", "inbred", "singletons", "singletons", "complementary", "fixed"][int(g.integers(11))]
    if chain:
        n0 = int(g.choice([200, 197, 196, 187, 161, 120, 110, 64, 30, 200, 161, 4097, 5000])); m = int(g.integers(1, 25))
    else:
        n0 = int(g.integers(2, 31)) if g.random() < 0.8 else int(g.choice([1, 2, 40, 49, 33]))
        m = int(g.integers(3, 41)) if g.random() < 0.85 else int(g.integers(1, 4))
    wide = (not chain) and (not huge) and g.random() < 0.1   # sizes around the limits of 8- and 16-bit integers (index * nvrnt, n * nvrnt)
    if wide:
        n0 = int(g.choice([100, 127, 128, 130, 200, 256, 257, 330, 330])); m = int(g.choice([100, 113, 127, 128, 129, 200, 255, 256, 257, 330, 330]))
    if pool:   # small candidate pools, half of them made of homozygous lines (one line alone is fixed at every locus)
        wide = False; n0 = int(g.integers(2, 25)); m = int(g.integers(2, 31))
        fcls = ["inbred", "inbred", "inbred", "inbred", "random", "skewed", "complementary", "singletons"][int(g.integers(8))]
    ntrait = int(g.choice([1, 2, 2, 3, 3]))
    carriers = None
    if huge:   # 50 000 - 200 000 founders, few markers, alleles one or two copies away from loss / fixation
        n0 = int(g.choice([50000, 65536, 100000, 131072, 150000, 200000])); m = int(g.integers(3, 9)); fcls = "very large, rare copies"
    u, ucls = gen_effects(g, m, ntrait)
    if huge:
        mat0, carriers = gen_huge_founders(g, n0, m)
    else:
        mat0 = gen_founder_mat(g, n0, m, ploidy, fcls)
    ungrouped = g.random() < 0.3
    pg = make_pop(g, mat0, int(g.integers(2, 5)) if ungrouped else int(g.integers(1, 4)), ungrouped=ungrouped)
    if ungrouped:
        ctx.hook("histories on founders never grouped along the variant axis (interleaved chromosomes)")
    model, beta, has_unscale, u, mkind = make_model(g, u, ntrait, mat0)
    ctx.hook("histories with model: " + mkind.split(",")[0])
    genotyper = DenseUnphasedGenotyping()
    ngen = int(g.integers(3, 26)) if g.random() < 0.3 else int(g.integers(3, 11))
    tail = (not chain) and g.random() < 0.35 and not pool
    history = [{"op": "founders", "class": fcls, "ntaxa": n0, "nvrnt": m, "ploidy": ploidy, "variant_axis": "ungrouped, interleaved" if ungrouped else "grouped"}]
    icls = ("selection-only chain, ploidy %d" % ploidy) if chain else ("very large founder population" if huge else "mating history")
    if pool:
        icls = "pool managed in place"
    mon = O.HistoryMonitor(ctx, u, icls, coords, history, model, mkind=mkind)
    protos = {}
    G, gref = read_generation(ctx, mon, model, has_unscale, genotyper, pg, 0, history[0], "founders", g, twin=twin, gr=gr)
    t = 0
    plan = []
    if huge:
        ngen = int(g.integers(2, 7)); plan.append("carriers")
    for _ in range(ngen):
        plan.append("subset" if chain else ["mate", "mate", "mate", "mate", "subset", "subset", "merge"][int(g.integers(7))])
    if (not chain) and (not huge) and g.random() < 0.03:    # one very large generation (block-wise code paths, > 4096 rows)
        plan.insert(int(g.integers(0, len(plan) + 1)), "big")
    if pool:
        plan = [POOL_KINDS[int(g.integers(len(POOL_KINDS)))] for _ in range(int(g.integers(3, 10)))]
        if g.random() < 0.4:
            plan.insert(0, "dhpool")
    if tail:
        plan += ["tail-dh", "tail-self", "tail-cross", "tail-subset", "tail-self"][: int(g.integers(2, 6))]
    nfixed_run = 0
    dirty = False
    for kind in plan:
        n = pg.ntaxa
        nfixed_run = nfixed_run + 1 if G.allfixed else 0
        if nfixed_run > 4:     # nothing can change any more; a few re-sized fixed generations are enough
            break
        if pool and n < 2 and kind in ("cull", "regroup", "delete"):
            kind = "reread"
        wasfixed = G.allfixed
        icls_k = None
        try:
            if pool and kind in INPLACE_KINDS + ("copy", "reread", "delete", "dhpool"):
                icls_k = O.INPLACE_ICLS if kind in INPLACE_KINDS else None
                if kind == "cull":
                    new, op, site = do_cull(ctx, g, pg, twin, gref)
                elif kind == "grow":
                    new, op, site, inprog = do_grow(ctx, g, protos, genotyper, mon, model, pg, twin, gref)
                    icls_k = None if inprog else icls_k      # (an allele that came back with the progeny: the mating step's finding)
                elif kind == "regroup":
                    new, op, site = do_regroup(ctx, g, genotyper, model, pg, twin, gref)
                elif kind == "reorder":
                    new, op, site = do_reorder(ctx, g, pg, twin)
                elif kind == "copy":
                    new, op, site = do_copy(ctx, g, pg, twin); icls_k = O.COPY_ICLS
                elif kind == "reread":
                    new, op, site = pg, {"op": "none (the same objects are read again)"}, "no operation"
                    icls_k = O.INPLACE_ICLS if dirty else O.REREAD_ICLS     # (the object keeps its past)
                    ctx.hook("generations read again from unchanged objects")
                elif kind == "delete":   # selection through the complement: a fresh object, the twin derived the same way
                    keep = select(g, gref, pick_size(g, 2, cap=n - 1), ["best", "worst", "random"][int(g.integers(3))])
                    drop = numpy.setdiff1d(numpy.arange(n), keep)
                    obj, form = drop_form(g, drop, n)
                    new = pg.delete_taxa(obj)
                    if twin.get("ug") is not None:
                        try:
                            twin["ug"] = twin["ug"].delete_taxa(obj)
                        except Exception as e:
                            ctx.raised("operation on the unphased twin object", e); twin["ug"] = None
                    op = {"op": "delete_taxa", "kept": numpy.sort(keep).tolist(), "argument_form": form}
                    site = O.defining_class(pg, "delete_taxa") + ".delete_taxa"
                else:   # a pool of doubled haploids
                    new, op, site = do_mate(ctx, g, protos, pg, gref, pick_size(g, cap=60), force=PROTOS[int(g.choice([2, 2, 4, 6]))])
                    twin["ug"] = None
            elif kind == "mate":
                new, op, site = do_mate(ctx, g, protos, pg, gref,
                                        int(g.choice([128, 129, 200, 255, 256, 257, 330, 330])) if wide and g.random() < 0.6 else pick_size(g))
            elif kind == "subset":
                if n == 1 and chain:
                    break
                new, op, site = do_subset(ctx, g, pg, gref, pick_size(g, ploidy, cap=n))
                if pool and twin.get("ug") is not None:   # the twin is derived by the same selection (or genotyped afresh)
                    try:
                        twin["ug"] = twin["ug"].select_taxa(numpy.asarray(op["indices"], dtype="int64")) if g.random() < 0.6 else None
                    except Exception as e:
                        ctx.raised("operation on the unphased twin object", e); twin["ug"] = None
            elif kind == "merge":   # overlapping generations: survivors + their progeny
                prog, op1, site1 = do_mate(ctx, g, protos, pg, gref, pick_size(g, cap=150))
                keep = select(g, gref, int(g.integers(1, n + 1)), ["best", "worst", "random"][int(g.integers(3))])
                surv = pg.select_taxa(keep); ctx.hook("select_taxa calls")
                new = type(pg).concat_taxa([surv, prog]); ctx.hook("concat_taxa calls")
                op = {"op": "merge", "survivors": keep.tolist(), "mating": op1}
                par = numpy.unique(numpy.asarray(op1["xconfig"], dtype="int64"))
                if len(par) < n:
                    side_check_parents(ctx, mon, model, pg.select_taxa(par), prog, site1, op)
                    ctx.hook("select_taxa calls"); ctx.hook("matings whose named parents are a proper subset of the matrix mated from")
                pc = numpy.asarray(prog.mat).astype(numpy.int64).sum((0, 1))   # which step brought an allele back, if any?
                inprog = bool(numpy.any(mon.lost0 & (pc != 0)) or numpy.any(mon.lost1 & (pc != prog.ntaxa * 2)))
                site = site1 if inprog else O.defining_class(pg, "concat_taxa") + ".concat_taxa"
            elif kind == "carriers":   # selection picks the carriers of the rare copies (plus a few others)
                ix64 = numpy.unique(numpy.r_[carriers, g.choice(n, int(g.integers(0, 8)), replace=False)])
                ix64 = g.permutation(ix64) if g.random() < 0.5 else ix64
                ix, idt, ilay = index_array(g, ix64)
                new = pg.select_taxa(ix); ctx.hook("select_taxa calls")
                op = {"op": "select_taxa", "rule": "carriers of the rare copies", "indices": ix64.tolist(), "index_dtype": idt, "index_layout": ilay}
                site = O.defining_class(pg, "select_taxa") + ".select_taxa"
            elif kind == "big":
                new, op, site = do_mate(ctx, g, protos, pg, gref, int(g.choice([4097, 5000, 4500, 8200])), force=PROTOS[int(g.integers(0, 3))])
            elif kind == "tail-dh":   # one doubled haploid: a population fixed at every locus
                new, op, site = do_mate(ctx, g, protos, pg, gref, 1, force=("TwoWayDHCross", 2))
            elif kind == "tail-self":
                new, op, site = do_mate(ctx, g, protos, pg, gref, int(g.choice(CRIT[2])), force=("SelfCross", 1))
            elif kind == "tail-cross":
                new, op, site = do_mate(ctx, g, protos, pg, gref, int(g.choice(CRIT[2] + NEIGH)), force=PROTOS[int(g.integers(1, 7))])
            else:
                new, op, site = do_subset(ctx, g, pg, gref, pick_size(g, 2, cap=n))
        except Exception as e:   # the property constrains results; a raising operation leaves the history where it was
            ctx.raised("history step %s" % kind, e)
            if pool and kind in INPLACE_KINDS:   # (... unless it works on the object itself: its state is unknown now)
                break
            continue
        if pool and kind == "mate":
            twin["ug"] = None
        dirty = (dirty and kind == "reread") or (pool and kind in INPLACE_KINDS)   # object changed in place since it was made
        icls_t = None
        narrow = bool(op.get("index_times_nvrnt_exceeds_dtype") or (op.get("mating") or {}).get("index_times_nvrnt_exceeds_dtype"))
        if op.get("op") == "mate" and g.random() < 0.85:
            # the population a cross descends from is the set of parents named in the cross table: it is observed as a
            # generation of its own (selection step), the progeny then have to stay inside *its* limits and allele set
            par = numpy.unique(numpy.asarray(op["xconfig"], dtype="int64"))
            if len(par) < n:
                try:
                    ppg = pg.select_taxa(par); ctx.hook("select_taxa calls")
                    t += 1
                    pop_ = {"op": "select_taxa", "rule": "parents named in the next cross table", "indices": par.tolist()}
                    history.append(pop_)
                    read_generation(ctx, mon, model, has_unscale, genotyper, ppg, t, pop_, O.defining_class(pg, "select_taxa") + ".select_taxa", g)
                    icls_t = SUBSET_ICLS
                    ctx.hook("matings whose named parents are a proper subset of the matrix mated from")
                except Exception as e:
                    ctx.raised("select_taxa (named parents)", e)
        t += 1
        history.append(op)
        pg = new
        if narrow:
            icls_t = NARROW_ICLS
        if icls_k is not None:
            icls_t = icls_k
        G, gref = read_generation(ctx, mon, model, has_unscale, genotyper, pg, t, op, site, g, icls=icls_t, twin=twin, gr=gr)
        if pool and kind == "cull" and G.allfixed and not wasfixed:
            ctx.hook("populations fixed at all loci reached by an in-place cull")
    seg = bool(numpy.any(mon.gens[0].present & ~mon.gens[0].fixed1)) or bool(numpy.any(u != 0))
    ctx.case("%s:%s" % (family, fcls if not chain else "ploidy %d/%s" % (ploidy, fcls)), mat0, u, beta, repr(history[1:]), trivial=(t == 0 or not seg))
    ctx.sumnote("generations observed", t + 1)
    if mon.gens[-1].allfixed:
        ctx.sumnote("histories ending fixed at all loci")
    if c % 101 == 0:
        ctx.sample({"family": family, "model": mkind, "founders": history[0], "effects": ucls, "u_a": u.tolist(), "beta": beta.tolist(),
                    "history": [{k: v for k, v in h.items() if k not in ("indices", "survivors")} for h in history[1:8]],
                    "sizes": [x.n for x in mon.gens]})


FAMILIES = {"hist": (lambda ctx, c: case_history(ctx, c, "hist"), 1800, 16 * 6000),
            "chain": (lambda ctx, c: case_history(ctx, c, "chain"), 700, 16 * 2000),
            "huge": (lambda ctx, c: case_history(ctx, c, "huge"), 12, 16 * 25),
            "pool": (lambda ctx, c: case_history(ctx, c, "pool"), 700, 16 * 2500)}


def run_shard(ctx):
    for name, (fn, q, t) in FAMILIES.items():
        for c in ctx.case_ids(q, t):
            fn(ctx, c)


def replay(ctx, coords):
    FAMILIES[coords[1]][0](ctx, int(coords[0]))
