"""Reference model for C11 (genetic maps and map functions), written from the property statement / textbook
definitions only.  Nothing here imports pybrops.

Conventions: genetic positions in Morgans; a map is a table of rows (chromosome label, physical position,
genetic position) with distinct physical positions inside a chromosome; its *canonical* order is ascending
(chromosome, physical position).
"""
import math

import numpy

INF = float("inf")


# ------------------------------------------------------------------ tolerance (DESIGN 2.2)
def tol(scale):
    return 1e-9 * float(scale) + 1e-12


def scale_of(*arrays):
    s = 1.0
    for a in arrays:
        a = numpy.asarray(a, dtype=float)
        f = a[numpy.isfinite(a)]
        if f.size:
            s = max(s, float(numpy.max(numpy.abs(f))))
    return s


def agree(a, b, scale):
    """NaN-, inf- and shape-aware closeness.  Returns (ok, worst finite |a-b|)."""
    a = numpy.asarray(a, dtype=float); b = numpy.asarray(b, dtype=float)
    if a.shape != b.shape:
        return False, INF
    na, nb = numpy.isnan(a), numpy.isnan(b)
    if not numpy.array_equal(na, nb):
        return False, INF
    ia, ib = numpy.isinf(a), numpy.isinf(b)
    if not numpy.array_equal(ia, ib) or not numpy.array_equal(numpy.sign(a[ia]), numpy.sign(b[ib])):
        return False, INF
    m = ~(na | ia)
    if not m.any():
        return True, 0.0
    err = float(numpy.max(numpy.abs(a[m] - b[m])))
    return err <= tol(scale), err


# ------------------------------------------------------------------ map functions
def ref_mapfn(kind, d):
    """Haldane r = (1 - e^{-2d})/2 ; Kosambi r = tanh(2d)/2 = (1 - e^{-4d}) / (2 (1 + e^{-4d})).
    Evaluated through expm1 (neither numpy.exp nor numpy.tanh, which the library uses)."""
    d = numpy.asarray(d, dtype=float)
    with numpy.errstate(all="ignore"):
        if kind == "haldane":
            return -0.5 * numpy.expm1(-2.0 * d)
        if kind == "kosambi":
            e = numpy.expm1(-4.0 * d)          # e^{-4d} - 1  in [-1, 0]
            return -0.5 * e / (2.0 + e)
    raise ValueError(kind)


def ref_mapfn_scalar(kind, d):
    """Pure-python scalar version (math module) used to cross-check the vectorised reference."""
    if d == INF:
        return 0.5
    if kind == "haldane":
        return -0.5 * math.expm1(-2.0 * d)
    return 0.5 * math.tanh(2.0 * d)


def inverse_tolerance(kind, d):
    """Conditioning-aware tolerance for invmapfn(mapfn(d)) ~ d: a rounding error of ~1e-16 in r is amplified by
    dd/dr = 1/(1-2r) = e^{2d} (Haldane) resp. 1/(1-4r^2) = cosh^2(2d) <= e^{4d} (Kosambi)."""
    d = numpy.asarray(d, dtype=float)
    return 1e-12 * (1.0 + numpy.exp((2.0 if kind == "haldane" else 4.0) * d))


# ------------------------------------------------------------------ maps
def canonical(ch, ph, ge):
    """Rows sorted by (chromosome, physical position) - pure python sort on tuples."""
    rows = sorted(zip([int(x) for x in ch], [int(x) for x in ph], [float(x) for x in ge]), key=lambda r: (r[0], r[1]))
    return (numpy.array([r[0] for r in rows], dtype="int64"), numpy.array([r[1] for r in rows], dtype="int64"),
            numpy.array([r[2] for r in rows], dtype=float))


def table(ch, ph, ge):
    """{chromosome: (sorted physical positions [python ints], genetic positions [floats])}."""
    t = {}
    for c, p, g in zip(*canonical(ch, ph, ge)):
        t.setdefault(int(c), ([], []))
        t[int(c)][0].append(int(p)); t[int(c)][1].append(float(g))
    return t


def is_congruent(tab):
    return all(all(g[i] <= g[i + 1] for i in range(len(g) - 1)) for _, g in tab.values())


def congruent_chromosomes(tab):
    """{chromosome: genetic positions never decrease along ascending physical position}.  Equal consecutive positions
    (complete linkage) do not decrease: such a chromosome is congruent."""
    return {c: all(g[i] <= g[i + 1] for i in range(len(g) - 1)) for c, (_, g) in tab.items()}


def ref_interp(tab, qc, qp):
    """Expected interpolated position per query and its kind:
    'absent' (chromosome not in the map -> NaN), 'own' (a marker of the map -> stored position), 'inside' (strictly
    between two flanking markers -> linear), 'outside' (beyond the terminal markers: the property does not fix the
    value, expected = NaN placeholder and never compared)."""
    exp = numpy.full(len(qc), numpy.nan); kind = []
    for i, (c, p) in enumerate(zip(qc, qp)):
        c = int(c); p = int(p)
        if c not in tab:
            kind.append("absent"); continue
        P, G = tab[c]
        if p < P[0] or p > P[-1]:
            kind.append("outside"); continue
        # linear scan for the flanking pair (maps are small)
        j = 0
        while P[j + 1] < p:
            j += 1
        if p == P[j]:
            exp[i] = G[j]; kind.append("own")
        elif p == P[j + 1]:
            exp[i] = G[j + 1]; kind.append("own")
        else:
            w = (p - P[j]) / (P[j + 1] - P[j])          # exact integer ratio rounded once
            exp[i] = G[j] + (G[j + 1] - G[j]) * w
            kind.append("inside")
    return exp, kind


def ref_seqdist(ch, g):
    """Sequential distance: +inf at the first element and wherever the chromosome changes, else g[k]-g[k-1]."""
    n = len(ch)
    out = numpy.empty(n)
    for k in range(n):
        out[k] = INF if (k == 0 or int(ch[k]) != int(ch[k - 1])) else float(g[k]) - float(g[k - 1])
    return out


def ref_pairdist(chr_r, g_r, chr_c, g_c):
    out = numpy.empty((len(chr_r), len(chr_c)))
    for i in range(len(chr_r)):
        for j in range(len(chr_c)):
            out[i, j] = abs(float(g_r[i]) - float(g_c[j])) if int(chr_r[i]) == int(chr_c[j]) else INF
    return out
