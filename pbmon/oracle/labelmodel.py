"""Entity-id model of labelled matrices (C03; reused by C15).

Every taxon / variant / trait has an integer id; every label array is a pure
function of the id and every data cell a pure function of the ids meeting in it.
The list model applies structural operations to id vectors with numpy's own
index primitives (trusted), so only the library's consistent use of them is judged.
"""
import numpy

AXES = ("taxa", "vrnt", "trait")
PRIMARY = {"taxa": "taxa", "vrnt": "vrnt_name", "trait": "trait"}
# variants with ids >= BIGPOS_FROM (only ever introduced by later joins) sit beyond the int32 range: a label array that was
# narrowed to the smallest integer dtype holding its own values must be widened, not wrapped, when such variants are joined
BIGPOS_FROM, BIGPOS = 215, 3_000_000_000
# ... and from HUGEPOS_FROM on beyond 2**53: valid int64 coordinates that do not survive a round trip through float64
HUGEPOS_FROM, HUGEPOS = 222, 2 ** 60 + 1
# taxa introduced by later joins (ids >= LATE_TAXA) belong to groups 4..7, all larger than the groups 0..3 of the initial taxa
# and in no particular order among themselves: joining them onto a grouped matrix must not leave stale group partitions behind
LATE_TAXA = 100
GROUPABLE = {"taxa": ("taxa_grp", "taxa_grp_"), "vrnt": ("vrnt_chrgrp", "vrnt_chrgrp_")}


class Regime:
    """How labels derive from ids.  unique: names identify ids; dup: names collide (id % 3);
    absent: optional label arrays are None."""

    def __init__(self, kind):
        self.kind = kind
        # ids of entities that were joined as raw arrays WITHOUT a name argument: the library documents a None placeholder
        self.unnamed = {a: set() for a in AXES}
        # group labels are an increasing affine image (scale, offset) of the raw group number: -1 / negative "unknown family"
        # labels, labels with gaps (1, 3, 5), large labels; the order of groups is unchanged by construction
        self.tgrp = (1, 0)
        self.cgrp = (1, 0)

    def labels(self, axis, ids):
        d = self._labels(axis, ids)
        p = PRIMARY[axis]
        if self.unnamed[axis] and d.get(p) is not None:
            for j, i in enumerate(numpy.asarray(ids, dtype=int).tolist()):
                if i in self.unnamed[axis]:
                    d[p][j] = None
        return d

    def _labels(self, axis, ids):
        ids = numpy.asarray(ids, dtype=int)
        k = (lambda i: i % 3) if self.kind == "dup" else (lambda i: i)
        if axis == "taxa":
            d = dict(taxa=numpy.array(["T%03d" % k(i) for i in ids], dtype=object),
                     taxa_grp=numpy.array([self.tgrp[0] * ((i * 7) % 4 + (4 if i >= LATE_TAXA else 0)) + self.tgrp[1] for i in ids], dtype="int64"))
            if self.kind == "absent":
                d["taxa_grp"] = None
            return d
        if axis == "vrnt":
            d = dict(vrnt_chrgrp=(self.cgrp[0] * (ids % 3 + 1) + self.cgrp[1]).astype("int64"), vrnt_phypos=(ids * 13 % 997 + 1 + numpy.where(ids >= BIGPOS_FROM, BIGPOS, 0) + numpy.where(ids >= HUGEPOS_FROM, HUGEPOS, 0)).astype("int64"),
                     vrnt_name=numpy.array(["V%03d" % k(i) for i in ids], dtype=object), vrnt_genpos=ids * 0.01,
                     vrnt_xoprob=(ids % 7) / 14.0, vrnt_hapgrp=(ids % 5).astype("int64"),
                     vrnt_hapalt=numpy.array(["A%d" % (i % 4) for i in ids], dtype=object),
                     vrnt_hapref=numpy.array(["R%d" % (i % 3) for i in ids], dtype=object),
                     vrnt_mask=(ids % 2 == 0))
            if self.kind == "absent":
                for f in ("vrnt_name", "vrnt_genpos", "vrnt_xoprob", "vrnt_hapgrp", "vrnt_hapalt", "vrnt_hapref", "vrnt_mask"):
                    d[f] = None
            return d
        d = dict(trait=numpy.array(["Y%02d" % k(i) for i in ids], dtype=object))
        return d

    def sortkey(self, axis, i):
        """Default sort key of the library: taxa -> (taxa_grp, taxa); vrnt -> (chrgrp, phypos); trait -> (trait,)"""
        k = (i % 3) if self.kind == "dup" else i
        if axis == "taxa":
            return (("T%03d" % k),) if self.kind == "absent" else (self.tgrp[0] * ((i * 7) % 4 + (4 if i >= LATE_TAXA else 0)) + self.tgrp[1], "T%03d" % k)
        if axis == "vrnt":
            return (self.cgrp[0] * (i % 3 + 1) + self.cgrp[1], i * 13 % 997 + 1 + (BIGPOS if i >= BIGPOS_FROM else 0) + (HUGEPOS if i >= HUGEPOS_FROM else 0))
        return ("Y%02d" % k,)


def cells(kind, dims, ids):
    """Data array for the matrix axes ``dims`` (sequence of axis names or 'phase'/'pad'), ids per axis name.

    kind 'float': id-coded (taxon + 1000*variant/2nd taxon + 1e6*trait + 0.25*phase); kind 'int8': allele-like codes
    0..2 (hash of all ids of the cell).
    """
    grids = []
    shape = []
    for d in dims:
        if d in ("phase", "pad"):
            v = numpy.arange(2, dtype=float)
        else:
            v = numpy.asarray(ids[d], dtype=float)
        grids.append(v); shape.append(len(v))
    mesh = numpy.meshgrid(*grids, indexing="ij") if len(grids) > 1 else [grids[0]]
    if kind == "int8":
        # allele-like codes 0..2 from an integer hash of ALL ids meeting in the cell (a linear form mod 3 would make the
        # cell independent of some axes, e.g. of the taxon, and hide a permutation applied to the data only)
        h = numpy.zeros(shape, dtype="int64")
        for k, g in enumerate(mesh):
            h = h ^ ((g.astype("int64") + 1) * (73856093, 19349663, 83492791, 2971215073)[k])
        h = ((h ^ (h >> 13)) % 2147483647) * 1274126177 % 2147483647
        return ((h >> 5) % 3).astype("int8")
    out = numpy.zeros(shape, dtype=float)
    seen = {}
    for d, g in zip(dims, mesh):
        if d in ("phase", "pad"):
            out = out + 0.25 * g
        else:
            n = seen.get(d, 0); seen[d] = n + 1
            # every labelled axis gets its own decimal block (ids < 1000): 1st taxa axis units, 2nd taxa axis / variants
            # thousands, traits millions, 3rd and 4th taxa axes (three-/four-way matrices) 1e9 and 1e12; all exactly representable
            mult = {"taxa": (1.0, 1e3, 1e9, 1e12)[min(n, 3)], "vrnt": 1e3, "trait": (1e6, 1e9)[min(n, 1)]}[d]   # 2nd trait axis only with <= 2 taxa axes
            out = out + mult * g
    return out


def apply_index(ids, op, arg):
    """List model: numpy primitive on the id vector."""
    v = numpy.asarray(ids, dtype=int)
    if op == "select":
        return numpy.take(v, arg).tolist()
    if op == "delete":
        return numpy.delete(v, arg).tolist()
    if op == "reorder":
        return v[numpy.asarray(arg)].tolist()
    raise KeyError(op)


def insert_ids(ids, obj, new):
    return numpy.insert(numpy.asarray(ids, dtype=int), obj, numpy.asarray(new, dtype=int)).tolist()
