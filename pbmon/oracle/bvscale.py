"""Reference model for C15 (breeding-value matrices: scaling round trip).

Written from the property statement, not from the library:

* the ground truth is the raw value matrix carried by the harness;
* per-trait summaries are computed from their textbook definitions on the finite raw entries with exact
  summation (``math.fsum``): population mean / variance / standard deviation (the statement's "centred and
  scaled", numpy's default ddof=0), max, min, range = max - min;
* tolerances come from a forward error analysis of *any* float64 implementation that stores
  ``(raw - location) / scale`` and returns ``scale * stored + location``:
  one store/unscale cycle perturbs an entry by at most 2.5*eps*(|raw| + |location|), |location| <= M (the largest
  finite magnitude of the trait), so after k cycles  |unscale - raw| <= 4*eps*(k+1)*(|raw| + 2*M);
  summaries of <= 200 values carry a cancellation error of at most ~ n*eps*M, bounded here by 1e-12*(k+1)*M
  (50x head-room; 1000x tighter than the framework default 1e-9*scale, which would hide "sd = 1 instead of 0"
  for a constant trait at offset 1e9).
"""
import math

import numpy

EPS = float(numpy.finfo(float).eps)
EPS32 = float(numpy.finfo(numpy.float32).eps)
PREC32 = EPS32 / EPS      # factor by which every tolerance widens for values whose own source array was float32
REL_STAT = 1e-12


def colmag(col):
    """Largest finite magnitude of a column (0.0 when there is none)."""
    m = 0.0
    for x in col:
        if x == x and abs(x) != math.inf and abs(x) > m:
            m = abs(x)
    return m


def ref_stats(col):
    """Summaries of the finite entries of one raw column, from the definitions.  None when no finite entry."""
    fin = [float(x) for x in col if x == x]
    n = len(fin)
    if n == 0:
        return None
    mx = max(fin); mn = min(fin)
    mean = math.fsum(fin) / n
    var = math.fsum((x - mean) * (x - mean) for x in fin) / n
    return {"tmax": mx, "tmin": mn, "tmean": mean, "trange": mx - mn, "tstd": math.sqrt(var), "tvar": var,
            "n": n, "nan": n < len(col), "const": mx == mn, "mag": max(abs(mx), abs(mn))}


def short_binary(v):
    """True when v is a dyadic rational with a short expansion (sums of <= 2**20 copies of it are exact)."""
    return abs(v) < 2.0 ** 30 and float(v * 2.0 ** 20).is_integer()


def keyclass(st, mag=0.0, k=0):
    """Coarse, maintainer-recognisable class of a raw column (used in finding keys).

    mag / k: largest magnitude the trait had in the matrices this column descends from, number of store/unscale cycles."""
    if st is None:
        return "all-NaN column"
    if st["const"] or st["tstd"] <= 8.0 * EPS * (k + 1) * max(st["mag"], mag):
        # exactly constant, or constant up to the round-trip error (after a store/unscale cycle the library itself cannot
        # tell the two apart, so a finding on either is the same mechanism)
        return "constant column"
    if st["nan"]:
        return "column with NaN entries"
    if st["tstd"] * 1e5 <= st["mag"]:
        return "large-offset column"
    return "regular column"


def tol_entry(raw, mag, k, roweps=None):
    """Elementwise round-trip tolerance after k store/unscale cycles (array in, array out).

    roweps: (n,1) array with the machine epsilon of the array each taxon's raw values came from (a float64 taxon must
    come back to float64 rounding error whatever it was combined with; a float32 taxon to float32 rounding error)."""
    e = EPS if roweps is None else roweps
    return 4.0 * e * (k + 1) * (numpy.abs(numpy.nan_to_num(raw, nan=0.0)) + 2.0 * mag)


def tol_stat(name, st, mag, k, prec=1.0):
    t1 = REL_STAT * prec * (k + 1) * mag
    if name == "tvar":
        return 2.0 * st["tstd"] * t1 + t1 * t1
    return t1


def compare_matrix(got, raw, mags, k, roweps=None):
    """Round-trip comparison of a whole matrix.  Returns (mask_ok, values_ok, worst err/tol ratio, first bad (i,j))."""
    got = numpy.asarray(got, dtype=float)
    if got.shape != raw.shape:
        return False, False, math.inf, None
    mr = numpy.isnan(raw); mg = numpy.isnan(got)
    mask_ok = bool(numpy.array_equal(mr, mg))
    tol = tol_entry(raw, numpy.asarray(mags)[None, :], k, roweps)
    both = ~mr & ~mg
    err = numpy.where(both, numpy.abs(numpy.where(both, got, 0.0) - numpy.where(both, raw, 0.0)), 0.0)
    bad = both & ~(err <= tol)
    with numpy.errstate(all="ignore"):
        ratio = numpy.where(both & (tol > 0), err / numpy.where(tol > 0, tol, 1.0), 0.0)
    worst = float(ratio.max()) if ratio.size else 0.0
    first = None
    if not mask_ok:
        ij = numpy.argwhere(mr != mg)[0]; first = (int(ij[0]), int(ij[1]))
    elif bad.any():
        ij = numpy.argwhere(bad)[0]; first = (int(ij[0]), int(ij[1]))
    return mask_ok, not bool(bad.any()), worst, first
