"""Reference model of a simulated field trial and of mean-phenotype breeding values (C14).

Written from the property statement, not from the library's code:

* true genotypic value of a taxon = intercept + dosage . u_a (+ heterozygous . u_d) with dosage = sum over
  chromosome copies of the raw 0/1 calls, heterozygous = dosage not in {0, ploidy};
* a trial = one record per (taxon, environment, replicate); record = truth + e_env + e_(env,rep) + e_record with
  independent N(0, var) effects per trait;
* breeding value of a taxon = arithmetic mean of its records (exactly rounded sum / count).
"""
import collections
import math

import numpy


def tol(scale):
    return 1e-9 * float(scale) + 1e-12


# ---------------------------------------------------------------- truth
def intercept_of(beta):
    """q = 1: beta[0].  q > 1 (pinned reading, DESIGN C04): contrast [1, 1/q, ..., 1/q] . beta."""
    beta = numpy.asarray(beta, dtype=float)
    q = beta.shape[0]
    w = numpy.full(q, 1.0 / q); w[0] = 1.0
    return w @ beta


def dosage_of(raw):
    """(nphase, n, p) raw calls -> integer dosage (n, p) and heterozygosity flags."""
    raw = numpy.asarray(raw)
    dos = raw.astype(numpy.int64).sum(0)
    het = (dos != 0) & (dos != raw.shape[0])
    return dos, het


def additive_values(raw, beta, u_a):
    dos, _ = dosage_of(raw)
    return intercept_of(beta)[None, :] + dos.astype(float) @ numpy.asarray(u_a, dtype=float)


def genotypic_values(raw, beta, u_a, u_d=None):
    dos, het = dosage_of(raw)
    gv = intercept_of(beta)[None, :] + dos.astype(float) @ numpy.asarray(u_a, dtype=float)
    if u_d is not None:
        gv = gv + het.astype(float) @ numpy.asarray(u_d, dtype=float)
    return gv


def value_scale(raw, beta, u_a, u_d=None):
    """Largest magnitude entering the computation of a genotypic value (per trait)."""
    dos, het = dosage_of(raw)
    s = numpy.abs(numpy.asarray(beta, dtype=float)).sum(0)
    s = s + (numpy.abs(dos).astype(float) @ numpy.abs(u_a)).max(0)
    if u_d is not None:
        s = s + (het.astype(float) @ numpy.abs(u_d)).max(0)
    return s


# ---------------------------------------------------------------- records
def cell_structure(env, rep):
    """{env label: sorted list of rep labels}, and the record count of every (env, rep) cell."""
    cells = collections.Counter(zip(env, rep))
    per_env = collections.defaultdict(list)
    for (e, r) in cells:
        per_env[e].append(r)
    return per_env, cells


def records_report(labels, env, rep, ntaxa, nrep):
    """Judge 'exactly one record per taxon, environment and replicate'.

    ``labels`` – taxon label of every record (hashable); ``env``/``rep`` – labels of every record (None when the
    protocol has a single implicit environment/replicate); ``nrep`` – requested replicates per environment.
    Any labelling of environments and replicates is accepted.  Returns dict relation -> bool.
    """
    N = int(ntaxa) * int(sum(int(x) for x in nrep))
    out = {"row count == ntaxa * sum(nrep)": len(labels) == N}
    if env is None:
        env = [0] * len(labels); rep = [0] * len(labels)
    triples = collections.Counter(zip(labels, env, rep))
    per_env, cells = cell_structure(env, rep)
    out["every (taxon, environment, replicate) exactly once"] = (
        all(v == 1 for v in triples.values()) and len(set(labels)) == int(ntaxa)
        and all(v == int(ntaxa) for v in cells.values()))
    out["replicate counts per environment == nrep"] = (
        len(per_env) == len(nrep) and sorted(len(v) for v in per_env.values()) == sorted(int(x) for x in nrep))
    return out


# ---------------------------------------------------------------- means
def taxon_means(labels, values):
    """label -> (mean vector, record count) with exactly rounded sums (math.fsum).

    A NaN cell is an unobserved plot of that trait: every trait is averaged over ITS observed records of the taxon and is
    NaN when the taxon has none.
    """
    rows = collections.defaultdict(list)
    for lab, v in zip(labels, values):
        rows[lab].append(v)
    out = {}
    for lab, vs in rows.items():
        m = []
        for j in range(len(vs[0])):
            obs = [v[j] for v in vs if v[j] == v[j]]
            m.append(math.fsum(obs) / len(obs) if obs else float("nan"))
        out[lab] = (numpy.array(m, dtype=float), len(vs))
    return out


# ---------------------------------------------------------------- variance components
def decompose(resid, cell_id, env_of_cell):
    """Nested decomposition of residuals (records x traits).

    cell_id: integer cell index of every record (0..ncell-1); env_of_cell: integer environment index of every cell.
    Returns within-cell deviations, cell means, env means, per-environment cell counts.
    """
    ncell = len(env_of_cell)
    nt = resid.shape[1]
    cnt = numpy.bincount(cell_id, minlength=ncell).astype(float)
    cm = numpy.stack([numpy.bincount(cell_id, weights=resid[:, j], minlength=ncell) for j in range(nt)], axis=1) / cnt[:, None]
    within = resid - cm[cell_id]
    nenv = int(env_of_cell.max()) + 1
    ecnt = numpy.bincount(env_of_cell, minlength=nenv).astype(float)
    em = numpy.stack([numpy.bincount(env_of_cell, weights=cm[:, j], minlength=nenv) for j in range(nt)], axis=1) / ecnt[:, None]
    return within, cm, em, ecnt


def level_tests(resid, cell_id, env_of_cell, ntaxa, var_env, var_rep, var_err):
    """Exact chi-square statistics of the three strata for one trait set.

    error stratum : sum of squared within-cell deviations        ~ var_err                 * chi2(ncell*(ntaxa-1))
    replicate     : sum over env of squared deviations of cell
                    means from their environment mean            ~ (var_rep + var_err/n)   * chi2(ncell - nenv)
    environment   : sum over env of mean_e^2 / v_e,  v_e = var_env + (var_rep + var_err/n)/nrep_e   ~ chi2(nenv)
    (all effects have known mean 0, so the environment stratum needs no grand-mean correction).
    Yields per trait j: (stratum, j, statistic, df, sigma2, maxabs) where sigma2 == 0 means the stratum must vanish.
    """
    within, cm, em, ecnt = decompose(resid, cell_id, env_of_cell)
    ncell = len(env_of_cell); nenv = len(ecnt)
    cdev = cm - em[env_of_cell]
    for j in range(resid.shape[1]):
        vr = float(var_rep[j]) + float(var_err[j]) / ntaxa
        yield ("error", j, float((within[:, j] ** 2).sum()), ncell * (ntaxa - 1), float(var_err[j]), float(numpy.abs(within[:, j]).max()))
        yield ("replicate", j, float((cdev[:, j] ** 2).sum()), ncell - nenv, vr, float(numpy.abs(cdev[:, j]).max()))
        ve = float(var_env[j]) + vr / ecnt
        if float(var_env[j]) + vr > 0.0:
            yield ("environment", j, float((em[:, j] ** 2 / ve).sum()), nenv, 1.0, float(numpy.abs(em[:, j]).max()))
        else:
            yield ("environment", j, float((em[:, j] ** 2).sum()), nenv, 0.0, float(numpy.abs(em[:, j]).max()))
