"""Reference model and harness plug-ins for C07 (selection protocols -> cross configurations).

Everything here is written from the property statement: counts in Python integers / Fractions, candidate-cross maps by
itertools, criteria from the raw inputs (breeding values as passed, allele counts times marker effects).
"""
import collections
import fractions
import itertools

import numpy

from pbmon.oracle import sampling as O

ENCODINGS = ("Subset", "Real", "Integer", "Binary")


def encoding_of(name):
    for e in ENCODINGS:
        if e in name:
            return e
    return "Subset"


# ---------------------------------------------------------------- final-state oracles
def self_pairings(x):
    """Number of repeated individuals within crosses (rows), Python integers."""
    return int(sum(len(r) - len(set(r)) for r in numpy.asarray(x).tolist()))


def improving_exchange(x):
    """Independent O(m^2) scan: (i, j, new_count) of a single exchange of two entries that lowers the self-pairing count, or None."""
    rows = [list(r) for r in numpy.asarray(x).tolist()]
    if not rows:
        return None
    ncol = len(rows[0])
    base = self_pairings(rows)
    if base == 0:
        return None
    cells = [(r, c) for r in range(len(rows)) for c in range(ncol)]
    for a in range(len(cells)):
        ra, ca = cells[a]
        for b in range(a + 1, len(cells)):
            rb, cb = cells[b]
            if ra == rb or rows[ra][ca] == rows[rb][cb]:
                continue
            rows[ra][ca], rows[rb][cb] = rows[rb][cb], rows[ra][ca]
            new = self_pairings(rows)
            rows[ra][ca], rows[rb][cb] = rows[rb][cb], rows[ra][ca]
            if new < base:
                return (a, b, new)
    return None


def usage_bounds(enc, decn, k):
    """{option: (lo, hi)} admissible usage counts of every option of the decision when ``k`` slots are filled.

    Subset : option = member value; a member listed m times owns m tiles: m*q <= count <= m*q + min(m, r), (q, r) = divmod(k, len)
    Integer/Binary : option i is listed decn[i] times in the tiled pool: d*q <= count <= d*q + min(d, r), (q, r) = divmod(k, sum d)
    Real   : count in {floor(e), ceil(e)}, e = k*c_i/sum(c) in exact rational arithmetic (with the C17 rounding allowance
             when e is within 1e-9 of an integer); c_i == 0 -> never
    """
    out = {}
    if enc == "Subset":
        mult = collections.Counter(numpy.asarray(decn).tolist())
        q, r = divmod(k, len(decn))
        for v, m in mult.items():
            out[v] = (m * q, m * q + min(m, r))
    elif enc in ("Integer", "Binary"):
        d = [int(v) for v in numpy.asarray(decn).tolist()]
        tot = sum(d)
        q, r = divmod(k, tot)
        for i, m in enumerate(d):
            out[i] = (m * q, m * q + min(m, r))
    else:
        pf = [fractions.Fraction(float(v)) for v in numpy.asarray(decn).tolist()]
        tot = sum(pf)
        for i, p in enumerate(pf):
            if p == 0:
                out[i] = (0, 0)
            else:
                out[i] = O._lohi(p * k / tot, False)
    return out


def members_of(enc, decn):
    """Set of options the decision contains (subset members / indices with a positive contribution)."""
    if enc == "Subset":
        return set(numpy.asarray(decn).tolist())
    return {i for i, v in enumerate(numpy.asarray(decn).tolist()) if v > 0}


def enumerate_xmap(ntaxa, nparent, unique):
    """All parent combinations of a candidate-cross map, as a set of sorted tuples."""
    gen = itertools.combinations if unique else itertools.combinations_with_replacement
    return set(gen(range(ntaxa), nparent))


def nondominated(F):
    """Indices of the non-dominated rows of F (minimisation), O(n^2) from the definition; duplicates are all kept."""
    F = numpy.asarray(F, dtype=float)
    keep = []
    for i in range(len(F)):
        dom = False
        for j in range(len(F)):
            if j != i and all(F[j] <= F[i]) and any(F[j] < F[i]):
                dom = True
                break
        if not dom:
            keep.append(i)
    return keep


# ---------------------------------------------------------------- transformations handed to the library
class LinTrans:
    """obj_trans(x, latent) = latent @ W, W (nlatent x nout) drawn lazily from a fixed seed, entries >= 0 (selection index).
    mode 'pick': W selects single latent values; 'index': dense non-negative weights."""

    def __init__(self, nout, seed, mode="pick", first=None):
        self.nout, self.seed, self.mode, self.first = nout, int(seed), mode, first
        self.W = None

    def matrix(self, nlatent):
        if self.W is None or self.W.shape[0] != nlatent:
            g = numpy.random.Generator(numpy.random.PCG64(self.seed))
            W = numpy.zeros((nlatent, self.nout))
            if self.mode == "pick":
                cols = g.permutation(nlatent)
                for j in range(self.nout):
                    W[cols[j % nlatent], j] = 1.0
                if self.first is not None:
                    W[:, 0] = 0.0
                    W[self.first % nlatent, 0] = 1.0
            else:
                W = g.integers(0, 4, (nlatent, self.nout)).astype(float)
                for j in range(self.nout):
                    if not W[:, j].any():
                        W[int(g.integers(nlatent)), j] = 1.0
            self.W = W
        return self.W

    def __call__(self, x, latent, **kw):
        latent = numpy.asarray(latent, dtype=float)
        return latent @ self.matrix(len(latent))


class ConsTrans:
    """Constraint transformation handed to the library: a deterministic pseudo-random violation per decision, so that about
    ``1 - level`` of all decisions are infeasible whatever the protocol.  v = frac(|sum(latent)| * 977 + |sum(x)| * 0.37 + j * phi);
    inequality: max(0, v - level); equality: 0 when v < level else v."""

    def __init__(self, nout, seed, level=0.5, equality=False):
        self.nout, self.seed, self.level, self.equality = int(nout), int(seed), float(level), bool(equality)

    def __call__(self, x, latent, **kw):
        base = abs(float(numpy.sum(numpy.asarray(latent, dtype=float)))) * 977.0 + abs(float(numpy.sum(numpy.asarray(x, dtype=float)))) * 0.37
        if not numpy.isfinite(base):
            base = 0.0
        out = numpy.empty(self.nout)
        for j in range(self.nout):
            v = (base + (j + 1 + self.seed % 7) * 0.6180339887) % 1.0
            out[j] = (0.0 if v < self.level else v) if self.equality else max(0.0, v - self.level)
        return out


class Reentrant:
    """A user callback (preference / objective / constraint transformation) that, before returning exactly what ``plain`` returns,
    calls back into the protocol it is installed in (``action``: a solve or select for another population, building another
    problem, evaluating another candidate).  Re-entry happens on the first ``budget`` outermost invocations only; invocations made
    while a re-entry is running are plain, so the recursion is bounded."""

    def __init__(self, plain, budget=1):
        self.plain, self.budget, self.action = plain, int(budget), None
        self.busy = False
        self.reentries = 0
        self.errors = []

    def __call__(self, *a, **k):
        if self.action is not None and not self.busy and self.reentries < self.budget:
            self.busy = True
            self.reentries += 1
            try:
                self.action()
            except Exception as e:      # the nested call is somebody else's business; the outer result must not depend on it
                self.errors.append("%s: %s" % (type(e).__name__, str(e)[:120]))
            finally:
                self.busy = False
        return self.plain(*a, **k)


def nd_sum(mat, **kw):
    return numpy.asarray(mat, dtype=float).sum(1)


def nd_first(mat, **kw):
    return numpy.asarray(mat, dtype=float)[:, 0].copy()


def nd_spread(mat, **kw):
    m = numpy.asarray(mat, dtype=float)
    return m.max(1) - m.min(1)


def nd_rounded(mat, **kw):   # many ties
    return numpy.round(numpy.asarray(mat, dtype=float).sum(1), 0)


NDTRANS = {"sum": nd_sum, "first": nd_first, "spread": nd_spread, "rounded-sum": nd_rounded}


# ---------------------------------------------------------------- optimiser plug-ins
def _classes(enc):
    import importlib
    algo = getattr(importlib.import_module("pybrops.opt.algo.%sOptimizationAlgorithm" % enc), "%sOptimizationAlgorithm" % enc)
    soln = getattr(importlib.import_module("pybrops.opt.soln.%sSolution" % enc), "%sSolution" % enc)
    return algo, soln


_PLUG = {}


def plugin(enc, chooser):
    """An optimiser the protocol accepts (subclass of the encoding's abstract optimiser) that records the problem it is handed,
    lets ``chooser(prob) -> (nsoln, ndecn) array`` decide, evaluates the decisions with the problem's own ``evalfn`` and returns
    a solution object of the library's class."""
    if enc not in _PLUG:
        base, solcls = _classes(enc)

        class Plug(base):
            def __init__(self, chooser):
                self.chooser = chooser
                self.prob = None
                self.calls = 0
                self.info = {}          # notes of the FIRST call (the outer one when a callback re-enters the protocol)
                self.history = []       # one (X, F, prob) entry per call, in order of entry

            def minimize(self, prob, miscout=None, **kw):
                idx = len(self.history)
                self.history.append(None)
                if idx == 0:
                    self.prob = prob
                self.calls += 1
                X = numpy.asarray(self.chooser(prob, self.info if idx == 0 else {}))
                ev = [prob.evalfn(x) for x in X]
                F = numpy.stack([numpy.asarray(e[0], dtype=float) for e in ev])
                G = numpy.stack([numpy.asarray(e[1], dtype=float) for e in ev])
                H = numpy.stack([numpy.asarray(e[2], dtype=float) for e in ev])
                self.history[idx] = (X, F, prob)
                if idx == 0:
                    self.X, self.F = X, F
                return solcls(ndecn=prob.ndecn, decn_space=prob.decn_space, decn_space_lower=prob.decn_space_lower,
                              decn_space_upper=prob.decn_space_upper, nobj=prob.nobj, obj_wt=prob.obj_wt, nineqcv=prob.nineqcv,
                              ineqcv_wt=prob.ineqcv_wt, neqcv=prob.neqcv, eqcv_wt=prob.eqcv_wt, nsoln=len(X), soln_decn=X,
                              soln_obj=F, soln_ineqcv=G, soln_eqcv=H)
        Plug.__name__ = "Harness%sPlugIn" % enc
        _PLUG[enc] = Plug
    return _PLUG[enc](chooser)


BRUTE_LIMIT = 1500


def ncomb(n, k):
    import math
    return math.comb(n, k)


def brute_force_subset(prob, info):
    """Exact optimum of a single-objective subset problem by enumeration; records optimum, runner-up and whether it is unique."""
    space = numpy.asarray(prob.decn_space).tolist()
    k = int(prob.ndecn)
    vals = []
    for s in itertools.combinations(space, k):
        o, g_, h_ = prob.evalfn(numpy.array(s, dtype=numpy.asarray(prob.decn_space).dtype))
        vals.append((float(numpy.sum(g_)) + float(numpy.sum(h_)), float(numpy.sum(o)), s))
    vals.sort(key=lambda t: (t[0], t[1]))
    info["best"] = vals[0][1]
    info["margin"] = (vals[1][1] - vals[0][1]) if len(vals) > 1 else float("inf")
    info["scale"] = max(abs(v[1]) for v in vals)
    info["nenum"] = len(vals)
    return numpy.array([vals[0][2]], dtype=numpy.asarray(prob.decn_space).dtype)


def singleton_sort_subset(prob, info):
    """Exact for separable (mean-of-members) criteria: evaluate every candidate alone, keep the ndecn smallest objectives."""
    space = numpy.asarray(prob.decn_space)
    vals = numpy.array([float(numpy.sum(prob.evalfn(numpy.array([e], dtype=space.dtype))[0])) for e in space.tolist()])
    order = numpy.argsort(vals, kind="stable")
    k = int(prob.ndecn)
    info["singleton"] = vals
    srt = vals[order]
    info["margin"] = float(srt[k] - srt[k - 1]) if k < len(srt) else float("inf")
    info["scale"] = float(numpy.max(numpy.abs(vals))) if len(vals) else 0.0
    return numpy.array([space[order[:k]]])


def exact_subset(prob, info):
    if ncomb(len(prob.decn_space), int(prob.ndecn)) <= BRUTE_LIMIT:
        info["method"] = "enumeration"
        return brute_force_subset(prob, info)
    info["method"] = "singleton-sort"
    return singleton_sort_subset(prob, info)
