"""C10 - online history checker for selection limits along a closed breeding history.

Written from the property statement:

* bracket : lsl(pop_t) <= GEBV(i) <= usl(pop_t) for every individual i of pop_t and of every later population pop_t'
* monotone: usl never increases, lsl never decreases along the history
* fixed   : every locus fixed (integer allele counts)  =>  usl == lsl == the common GEBV
* lost    : an allele whose integer count is 0 at generation t has count 0 at every t' > t (and a frequency the library
            reported as exactly 0 / exactly 1 stays exactly 0 / 1)

The deciding relations use only the reported limits, the breeding values and integer allele counts.  A *tight reference*
(ploidy * sum over loci of the better effect still present) is computed too, but it decides nothing: it is used to
attribute a failed relation to the component that produced the offending number (finding key = mechanism signature) and
is reported as a diagnostic counter.
"""
import numpy

REL_TOL, ABS_TOL = 1e-9, 1e-12


def defining_class(obj, name):
    """Name of the class in the MRO of ``obj`` that defines ``name`` (finding keys name the implementing class)."""
    for k in type(obj).__mro__:
        if name in k.__dict__:
            return k.__name__
    return type(obj).__name__


def is_pow2(n):
    return n > 0 and (n & (n - 1)) == 0


def size_class(N):
    return "ploidy*n a power of two" if is_pow2(int(N)) else "ploidy*n not a power of two"


# input classes of generations that are read from an object with a past (the object, not the population, is the input class)
INPLACE_ICLS = "population object changed in place after its limits were read"
COPY_ICLS = "population object obtained by copy() / deepcopy() of one whose limits were read"
REREAD_ICLS = "unchanged population object read again"
STATEFUL_ICLS = (INPLACE_ICLS, COPY_ICLS, REREAD_ICLS)


def tight_reference(u, present, fixed, ploidy):
    """(usl, lsl) if at each locus the better / worse allele still present is carried on all ``ploidy`` copies.

    present[j]: allele 1 occurs at locus j;  fixed[j]: allele 1 is the only allele at locus j.  Diagnostic only.
    """
    pos = u > 0
    neg = u < 0
    pr = present[:, None]
    fx = fixed[:, None]
    usl = float(ploidy) * (numpy.where(pos & pr, u, 0.0).sum(0) + numpy.where(neg & fx, u, 0.0).sum(0))
    lsl = float(ploidy) * (numpy.where(pos & fx, u, 0.0).sum(0) + numpy.where(neg & pr, u, 0.0).sum(0))
    return usl, lsl


class Gen:
    """Everything observed at one generation."""
    __slots__ = ("t", "n", "N", "ploidy", "count", "op", "opsite", "info", "present", "fixed1", "allfixed", "afreq", "offset", "icls", "gdev")


class HistoryMonitor:
    """Online checker: one ``observe`` per generation, in history order."""

    def __init__(self, ctx, u, icls, coords, history, model=None, mkind=None):
        self.ctx, self.u = ctx, numpy.asarray(u, dtype=float)
        self.model = model
        self.mkind = "" if not mkind or mkind.startswith("plain") else ", " + mkind.split(",")[0]   # model class (coarse) as part of the input class
        self.icls, self.coords, self.history = icls, coords, history
        self.gens = []
        self.env = {}        # (view, scaling) -> tightest earlier limits per trait and the generations that set them
        self.lost_lib = {}   # view -> (zero mask, one mask) of *reported* frequencies, accumulated
        self.lost0 = self.lost1 = None

    # ------------------------------------------------------------------ helpers
    def tol(self, ploidy, offset):
        scale = float(ploidy) * float(numpy.abs(self.u).sum(0).max(initial=0.0)) + float(numpy.max(numpy.abs(offset), initial=0.0))
        return REL_TOL * scale + ABS_TOL

    def _w(self, G, view, scaling, kind, **extra):
        w = {"generation": G.t, "ntaxa": G.n, "ploidy": G.ploidy, "view": view, "scaling": scaling, "limit": kind,
             "operation": G.op, "history": list(self.history[: G.t + 1]), "allele_count": G.count, "u_a": self.u}
        w.update(extra)
        return w

    def chk(self, clause, cond, attrib, rel, what=None, witness=None):
        """Count one evaluation; site / input class / witness are only worked out when the relation failed."""
        if cond:
            self.ctx.ok(clause)
            return True
        a = attrib() if callable(attrib) else attrib
        site, icls = a[0], a[1]
        if len(a) > 2:      # the number was traced to an upstream component: the key names the relation broken *there*
            rel = a[2]
        self.ctx.check(clause, False, site, rel, icls, what=(what(site) if callable(what) else what),
                       witness=(witness() if callable(witness) else witness), coords=self.coords)
        return False

    # ------------------------------------------------------------------ per generation
    def observe(self, t, op, opsite, mat, ploidy, limits, afreqs, gsc, gun, offset, icls=None, gdev=None):
        """
        mat     : integer allele matrix (phase, taxa, locus) of the population as stored by the library object
        limits  : {view: {"sc": (usl, lsl), "un": (usl, lsl)}}  reported limits (missing entries = call raised)
        afreqs  : {view: (reported frequency vector, defining class of afreq)} for GenotypeMatrix views
        gsc/gun : breeding values without / with intercept, shape (n, ntrait); gun may be None
        offset  : intercept vector contained in ``gun`` (tolerance scale and attribution only)
        gdev    : {"sc"/"un": True} when the library-reported breeding values deviate from genotype @ effects (+ constant);
                  they are judged as reported (they are what the limits promise to bracket); the flag only names the site
        """
        G = Gen()
        G.t, G.op, G.opsite, G.ploidy = t, op, opsite, int(ploidy)
        G.n = int(mat.shape[1]); G.N = G.ploidy * G.n
        G.count = mat.astype(numpy.int64).sum((0, 1))
        G.present = G.count > 0
        G.fixed1 = G.count == G.N
        G.allfixed = bool(numpy.all((G.count == 0) | G.fixed1))
        G.afreq, G.offset = afreqs, offset
        G.info = {}
        tol = self.tol(ploidy, offset)
        refu, refl = tight_reference(self.u, G.present, G.fixed1, ploidy)
        prev = self.gens[-1] if self.gens else None
        G.icls = ic0 = icls or self.icls
        G.gdev = gdev or {}     # scaling -> True when the breeding values the library reported differ from the integer definition

        # ---- C10.lost on integer counts (once per generation; by induction "count 0 at t => count 0 at every t' > t"
        #      is the same as "count 0 at t-1 => count 0 at t" for every t, so the masks are those of the predecessor)
        if prev is not None:
            back0 = numpy.flatnonzero(self.lost0 & (G.count != 0))
            back1 = numpy.flatnonzero(self.lost1 & (G.count != G.N))
            codes_ok = bool(numpy.all((mat == 0) | (mat == 1)))
            self.chk("C10.lost", len(back0) == 0, (opsite, ic0), "allele 1 with integer count 0 stays absent",
                     what="%s: allele 1 reappeared at %d loci where its count had been 0" % (opsite, len(back0)),
                     witness=lambda: self._w(G, "counts", "-", "-", loci=back0, previous_count=prev.count))
            self.chk("C10.lost", len(back1) == 0, (opsite, ic0), "allele 0 with integer count 0 stays absent",
                     what="%s: allele 0 reappeared at %d loci where allele 1 had been fixed" % (opsite, len(back1)),
                     witness=lambda: self._w(G, "counts", "-", "-", loci=back1, previous_count=prev.count))
            self.chk("C10.lost", codes_ok, (opsite, ic0), "only the founders' alleles 0/1 occur",
                     witness=lambda: self._w(G, "counts", "-", "-", codes=numpy.unique(mat)))
            if len(back0) or len(back1) or not codes_ok:
                # the step just reported did not produce a descendant population: limits of the ancestors say nothing about
                # this one.  The history relations restart here (their failure would be the same finding once more).
                self.env.clear(); self.lost_lib.clear()
                self.ctx.sumnote("history monitor restarted after an allele reappeared")
        self.lost0 = G.count == 0
        self.lost1 = G.fixed1.copy()

        # ---- C10.lost on the frequencies the library itself reports for the population
        for view, (p, acls) in afreqs.items():
            p = numpy.asarray(p, dtype=float)
            z, o = self.lost_lib.get(view, (None, None))
            if z is not None and p.shape == z.shape:
                site = acls + ".afreq"
                sz = G.icls if G.icls in STATEFUL_ICLS else size_class(G.N)
                self.chk("C10.lost", bool(numpy.all(p[z] == 0.0)), (site, sz), "reported frequency stays exactly 0 once it was 0",
                         witness=lambda: self._w(G, view, "-", "-", afreq=p))
                self.chk("C10.lost", bool(numpy.all(p[o] == 1.0)), (site, sz), "reported frequency stays exactly 1 once it was 1",
                         what="%s reported a frequency below 1 at a locus it had reported as fixed at 1 in an ancestor population (n=%d, ploidy=%d)"
                         % (site, G.n, G.ploidy), witness=lambda: self._w(G, view, "-", "-", afreq=p))
                self.lost_lib[view] = (z | (p == 0.0), o | (p == 1.0))
            elif z is None:
                self.lost_lib[view] = (p == 0.0, p == 1.0)

        # ---- limits
        for view, bysc in limits.items():
            for sc, (usl, lsl) in bysc.items():
                Gv = gsc if sc == "sc" else gun
                if Gv is None:
                    continue
                usl = numpy.asarray(usl, dtype=float).ravel(); lsl = numpy.asarray(lsl, dtype=float).ravel()
                off = 0.0 if sc == "sc" else offset
                gmax, gmin = Gv.max(0), Gv.min(0)
                shp = usl.shape == gmax.shape and lsl.shape == gmax.shape
                for kind, val, ref in (("usl", usl, refu + off), ("lsl", lsl, refl + off)):
                    dev = float(numpy.max(numpy.abs(val - ref))) if shp and numpy.all(numpy.isfinite(val)) else float("inf")
                    G.info[(view, sc, kind)] = (val, dev > tol)
                    if dev <= tol:
                        self.ctx.sumnote("diagnostic: limit == tight reference")
                        self.ctx.maxnote("limit |got - tight reference| / tolerance (when within)", dev / tol)
                    else:
                        self.ctx.sumnote("diagnostic: limit != tight reference")
                A = lambda kind, X=G, view=view, sc=sc: (lambda: self.attribute(X, view, sc, kind))
                W = lambda kind, view=view, sc=sc, **kw: (lambda: self._w(G, view, sc, kind, tol=tol, **kw))
                # bracket, same population
                self.chk("C10.bracket", shp and bool(numpy.all(gmax <= usl + tol)), A("usl"), "usl >= largest GEBV of the same population",
                         witness=W("usl", usl=usl, gebv_max=gmax))
                self.chk("C10.bracket", shp and bool(numpy.all(gmin >= lsl - tol)), A("lsl"), "lsl <= smallest GEBV of the same population",
                         witness=W("lsl", lsl=lsl, gebv_min=gmin))
                if not shp:
                    continue
                fin = bool(numpy.all(numpy.isfinite(usl)) and numpy.all(numpy.isfinite(lsl)))
                if fin:
                    self.ctx.maxnote("bracket slack used / tolerance", max(0.0, float(numpy.max(gmax - usl)), float(numpy.max(lsl - gmin))) / tol)
                # fixed
                if G.allfixed:
                    common = Gv[0]
                    same = bool(numpy.all(numpy.abs(Gv - common) <= tol))
                    for kind, val in (("usl", usl), ("lsl", lsl)):
                        self.chk("C10.fixed", same and bool(numpy.all(numpy.abs(val - common) <= tol)), A(kind),
                                 "%s == common GEBV when every locus is fixed" % kind,
                                 what=lambda s, kind=kind, val=val: "%s: %s = %s of a population fixed at all loci differs from the common breeding "
                                 "value %s (n=%d, ploidy=%d, %s input)" % (s, kind, val.tolist(), common.tolist(), G.n, G.ploidy, view),
                                 witness=W(kind, got=val, common_gebv=common))
                    if G.N > 1 and not is_pow2(G.N):
                        self.ctx.hook("fixed populations with ploidy*n not a power of two")
                # history relations
                e = self.env.get((view, sc))
                if e is None:
                    tt = numpy.full(usl.shape, t, dtype=int)
                    self.env[(view, sc)] = ((numpy.where(numpy.isfinite(usl), usl, numpy.inf), tt),
                                            (numpy.where(numpy.isfinite(lsl), lsl, -numpy.inf), tt.copy()))
                    continue
                (eu, eut), (el, elt) = e
                P = lambda kind, tvec, bad, first, view=view, sc=sc: (
                    lambda: self.attribute_pair(G, view, sc, kind, int(tvec[bad[0]]), ancestor_first=first))
                # descendants inside every ancestor's limits
                bad = numpy.flatnonzero(~(gmax <= eu + tol))
                self.chk("C10.bracket", len(bad) == 0, P("usl", eut, bad, True), "usl of an ancestor population >= GEBV of every descendant",
                         witness=W("usl", ancestor_usl=eu, ancestor_generation=eut, gebv_max=gmax))
                bad = numpy.flatnonzero(~(gmin >= el - tol))
                self.chk("C10.bracket", len(bad) == 0, P("lsl", elt, bad, True), "lsl of an ancestor population <= GEBV of every descendant",
                         witness=W("lsl", ancestor_lsl=el, ancestor_generation=elt, gebv_min=gmin))
                # monotone (against the tightest limit reported by any earlier generation)
                bad = numpy.flatnonzero(~(usl <= eu + tol))
                self.chk("C10.monotone", len(bad) == 0, P("usl", eut, bad, False), "usl never increases along the history",
                         what=lambda s, eu=eu, eut=eut, usl=usl, view=view: "%s: upper limit rose from %s (generations %s) to %s at generation %d "
                         "(n=%d, ploidy=%d, %s input)" % (s, eu.tolist(), eut.tolist(), usl.tolist(), t, G.n, G.ploidy, view),
                         witness=W("usl", usl=usl, earlier_usl=eu, earlier_generation=eut))
                bad = numpy.flatnonzero(~(lsl >= el - tol))
                self.chk("C10.monotone", len(bad) == 0, P("lsl", elt, bad, False), "lsl never decreases along the history",
                         what=lambda s, el=el, elt=elt, lsl=lsl, view=view: "%s: lower limit fell from %s (generations %s) to %s at generation %d "
                         "(n=%d, ploidy=%d, %s input)" % (s, el.tolist(), elt.tolist(), lsl.tolist(), t, G.n, G.ploidy, view),
                         witness=W("lsl", lsl=lsl, earlier_lsl=el, earlier_generation=elt))
                if fin:
                    self.ctx.maxnote("monotone slack used / tolerance", max(0.0, float(numpy.max(usl - eu)), float(numpy.max(el - lsl))) / tol)
                fu = numpy.isfinite(usl) & (usl < eu); fl = numpy.isfinite(lsl) & (lsl > el)
                self.env[(view, sc)] = ((numpy.where(fu, usl, eu), numpy.where(fu, t, eut)), (numpy.where(fl, lsl, el), numpy.where(fl, t, elt)))
        self.gens.append(G)
        return G

    # ------------------------------------------------------------------ attribution (only consulted for keys / witnesses)
    def attribute(self, G, view, sc, kind):
        """(site, input class) of the component that produced the reported limit ``kind`` of generation ``G``."""
        numpy_site = "%s.%s_numpy" % (defining_class(self.model, kind + "_numpy"), kind)
        val, dev = G.info.get((view, sc, kind), (None, False))
        if G.gdev.get(sc) and not dev:
            return self.gebv_site(G, sc)
        fr = G.info.get(("frequency", sc, kind))
        if view == "frequency" or (fr is not None and fr[1]):
            # wrong already when handed the correctly rounded frequency vector: the input form does not matter
            return numpy_site, "any input form" + self.mkind
        if view in G.afreq:
            # (for an object with a past the frequency it reports *now* is compared with its content *now*: a remembered
            #  frequency shows up here)
            p, acls = G.afreq[view]
            p = numpy.asarray(p, dtype=float)
            pres, fix = p > 0.0, p >= 1.0
            if dev and val is not None and p.shape == G.present.shape and (numpy.any(pres != G.present) or numpy.any(fix != G.fixed1)):
                # the reported frequency misstates presence / fixation; does the limit merely follow it?
                ru, rl = tight_reference(self.u, pres, fix, G.ploidy)
                r = (ru if kind == "usl" else rl) + (G.offset if sc == "un" else 0.0)
                if r.shape == val.shape and numpy.all(numpy.abs(val - r) <= self.tol(G.ploidy, G.offset)):
                    return (acls + ".afreq", G.icls if G.icls in STATEFUL_ICLS else size_class(G.N),
                            "reported frequency exactly 0/1 iff count 0/ploidy*n (limits follow it)")
            return ("%s.%s" % (defining_class(self.model, kind), kind),
                    "%s matrix input" % view + (" (%s)" % G.icls if G.icls in STATEFUL_ICLS else ""))
        if view == "ndarray" and dev and fr is not None:
            # the same model is right when handed the correctly rounded frequency:
            # the frequency computed inside usl()/lsl() for array input is what is off
            return ("%s.usl/lsl" % defining_class(self.model, kind), "ndarray input, " + size_class(G.N),
                    "frequency computed from array input exactly 0/1 iff count 0/ploidy*n (limits follow it)")
        return "%s.%s" % (defining_class(self.model, kind), kind), "%s input" % view

    def attribute_pair(self, G, view, sc, kind, earlier_t, ancestor_first=False):
        """Relation between two generations: blame the generation whose number is off the reference, else the operation."""
        E = self.gens[earlier_t] if 0 <= earlier_t < len(self.gens) else G
        for X in ([E, G] if ancestor_first else [G, E]):
            if X.info.get((view, sc, kind), (None, False))[1]:
                return self.attribute(X, view, sc, kind)
        if ancestor_first and G.gdev.get(sc):
            return self.gebv_site(G, sc)
        return G.opsite, G.icls

    def gebv_site(self, G, sc):
        """The limits are what the reference says, the breeding values the library reported are not genotype @ effects."""
        d = G.gdev.get(sc)
        if isinstance(d, tuple) and len(d) == 4:   # a read of a breeding value matrix object: (method, label, site, input class)
            return (d[2], d[3], "breeding values read from a breeding value matrix == genotype @ effects + intercept; the limits are "
                                "right, the values leave them")
        if isinstance(d, tuple):     # (method, route label) of the first route whose values are off
            site = "%s.%s" % (defining_class(self.model, d[0]), d[1])
        else:
            name = "gebv_numpy" if sc == "sc" else "gebv"
            site = "%s.%s" % (defining_class(self.model, name), name) + ("" if sc == "sc" else "(...).unscale()")
        return (site,
                "more than 4096 taxa" if G.n > 4096 else "at most 4096 taxa",
                "reported breeding values == genotype @ effects (+ intercept); the limits are right, the values leave them")
