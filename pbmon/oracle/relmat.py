"""Reference models for relationship (coancestry) matrices (C13).

Written from the property statement and the published definitions, on the raw
allele array the workload generated -- never on anything the library derived.

alleles : int array (ploidy, n, m) of 0/1 allele states.  For an unphased source
          with dosage x the allele multiset of an individual is x ones and
          ploidy-x zeros (the order inside an individual never matters below).

* molecular coancestry  f_ij = 2 * mean_k P(a == b),  a drawn from i, b drawn from j at
  marker k (drawn independently, so i == j means drawing with replacement); computed by
  literally counting matching allele pairs with integers.
* VanRaden (2008, method 1, generalised to ploidy c):  G = Z Z' / (c * sum_k p_k (1 - p_k)),
  Z_ik = x_ik - c p_k.
* Yang et al. (2010), uniform per-marker scaling (the reading under which the matrix is
  a Gram matrix, as the property's PSD clause requires):
  G_ij = (1/m) sum_k (x_ik - c p_k)(x_jk - c p_k) / (c p_k (1 - p_k)).
* generalised weighted:  G = Z diag(w) Z'.

Float evaluation is in numpy.longdouble, entry sums are accumulated marker by marker
(no matrix product), so the oracle shares neither BLAS nor operation order with the library.
"""
import numpy

LD = numpy.longdouble


def dosage(alleles):
    """(n, m) integer dosages from the raw allele array."""
    return numpy.asarray(alleles, dtype=numpy.int64).sum(0)


def alleles_from_dosage(x, ploidy):
    """Allele multiset representation of an unphased dosage matrix."""
    x = numpy.asarray(x, dtype=numpy.int64)
    return numpy.stack([(x > a).astype(numpy.int64) for a in range(ploidy)], 0)


def molecular(alleles):
    """Return (integer match counts C, denominator d): f = 2*C/d exactly, d = ploidy^2 * m."""
    A = numpy.asarray(alleles, dtype=numpy.int64)
    c, n, m = A.shape
    C = numpy.zeros((n, n), dtype=numpy.int64)
    for a in range(c):          # allele drawn from the first individual
        for b in range(c):      # allele drawn from the second individual
            for k in range(m):  # marker by marker: count identical-by-state pairs
                col_a = A[a, :, k]; col_b = A[b, :, k]
                C += (col_a[:, None] == col_b[None, :])
    return C, c * c * m


def molecular_float(alleles):
    C, d = molecular(alleles)
    return numpy.asarray(2 * C.astype(LD) / LD(d), dtype=numpy.float64)


def sample_freq(x, ploidy):
    """Allele frequencies estimated from the matrix itself: integer counts / (ploidy*n), in long double."""
    x = numpy.asarray(x, dtype=numpy.int64)
    return x.sum(0).astype(LD) / LD(ploidy * x.shape[0])


def _centred(x, ploidy, p):
    return numpy.asarray(x, dtype=LD) - LD(ploidy) * numpy.asarray(p, dtype=LD)[None, :]


def _gram(Z, colscale):
    """sum_k colscale_k * Z_ik * Z_jk accumulated marker by marker in long double; also the
    same sum with absolute values (the magnitude that entered each entry, for the tolerance)."""
    n, m = Z.shape
    G = numpy.zeros((n, n), dtype=LD)
    S = numpy.zeros((n, n), dtype=LD)
    for k in range(m):
        z = Z[:, k]
        o = numpy.multiply.outer(z, z) * colscale[k]
        G += o
        S += numpy.abs(o)
    return G, S


def vanraden(x, ploidy, p):
    p = numpy.asarray(p, dtype=LD)
    Z = _centred(x, ploidy, p)
    den = LD(ploidy) * (p * (1 - p)).sum()
    G, S = _gram(Z, numpy.ones(Z.shape[1], dtype=LD))
    return (G / den).astype(numpy.float64), float((S / den).max()) if S.size else 0.0


def yang(x, ploidy, p):
    p = numpy.asarray(p, dtype=LD)
    Z = _centred(x, ploidy, p)
    m = Z.shape[1]
    G, S = _gram(Z, 1 / (LD(ploidy) * p * (1 - p)))
    return (G / LD(m)).astype(numpy.float64), float((S / LD(m)).max()) if S.size else 0.0


def gweighted(x, ploidy, p, w):
    Z = _centred(x, ploidy, p)
    G, S = _gram(Z, numpy.asarray(w, dtype=LD))
    return G.astype(numpy.float64), float(S.max()) if S.size else 0.0


def tol(scale):
    """DESIGN 2.2."""
    return 1e-9 * float(scale) + 1e-12


def maxerr(a, b):
    a = numpy.asarray(a, dtype=float); b = numpy.asarray(b, dtype=float)
    if a.shape != b.shape:
        return float("inf")
    if a.size == 0:
        return 0.0
    d = numpy.abs(a - b)
    if not numpy.all(numpy.isfinite(a)) or not numpy.all(numpy.isfinite(b)):
        return float("inf")
    return float(d.max())
