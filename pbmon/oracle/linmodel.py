"""Reference model for C04 (linear genomic models, fitted rrBLUP).

Everything here is written from the property statement and the definitions it
names, not from the library's code:

* dosage of a taxon at a marker = number of copies of the allele coded 1 (sum of
  the raw calls over the phases); heterozygosity indicator = dosage is neither 0
  nor the ploidy;
* value of a taxon = intercept + sum_j dosage_j * a_j (+ sum_j het_j * d_j);
* genetic variance = population variance (divisor n) of the values over taxa;
  genic variance = ploidy^2 * sum_j a_j^2 p_j (1 - p_j), p_j = allele-1 frequency;
  Bulmer ratio = additive genetic / genic variance, undefined (NaN) when the genic
  variance is zero;
* R^2 = 1 - SSE/SST;
* an allele is favourable when its substitution effect is positive: allele 1
  where a_j > 0, allele 0 where a_j < 0, none where a_j == 0 (neutral marker).

Products are accumulated with ``einsum`` over an explicit (taxon, marker, trait)
tensor, i.e. not through the BLAS matrix product the library uses.
"""
import numpy

RTOL = 1e-9
ATOL = 1e-12


def tol(scale):
    return RTOL * float(scale) + ATOL


# ------------------------------------------------------------------ genotypes
def dosage(phased):
    """(ploidy, n, p) raw calls -> (n, p) int64 dosages."""
    return numpy.asarray(phased, dtype="int64").sum(0)


def hetind(dos, ploidy):
    dos = numpy.asarray(dos)
    return (dos != 0) & (dos != ploidy)


def allele_count(dos):
    """(p,) python-exact (int64) number of allele-1 copies per marker."""
    return numpy.asarray(dos, dtype="int64").sum(0)


# ------------------------------------------------------------------ values
def intercept(beta):
    """Intercept of a model with q fixed effects: first coefficient plus the mean-weighted remaining ones
    (pinned reading, anchors: Xstar = [1, 1/q, ..., 1/q]); for q = 1 simply beta[0]."""
    beta = numpy.asarray(beta, dtype=float)
    q = beta.shape[0]
    out = beta[0].copy()
    for k in range(1, q):
        out = out + beta[k] / q
    return out  # (t,)


def marker_part(dos, u_a, het=None, u_d=None):
    """(n, t) sum_j dosage_j a_j (+ het_j d_j), accumulated marker by marker in a fixed order."""
    d = numpy.asarray(dos, dtype=float)
    out = numpy.einsum("ij,jk->ik", d, numpy.asarray(u_a, dtype=float), optimize=False)
    if u_d is not None:
        h = numpy.asarray(het, dtype=float)
        out = out + numpy.einsum("ij,jk->ik", h, numpy.asarray(u_d, dtype=float), optimize=False)
    return out


def value_scale(beta, u_a, u_d, ploidy, X=None):
    """Largest magnitude that can enter one predicted value (per run, not per trait)."""
    s = float(ploidy) * float(numpy.abs(u_a).sum(0).max()) if numpy.size(u_a) else 0.0
    if u_d is not None and numpy.size(u_d):
        s += float(numpy.abs(u_d).sum(0).max())
    if X is None:
        s += float(numpy.abs(beta).sum(0).max())
    else:
        s += float((numpy.abs(X) @ numpy.abs(beta)).max()) if numpy.size(X) else 0.0
    return max(s, 1e-300)


def popvar(v):
    """Two-pass population variance over axis 0."""
    v = numpy.asarray(v, dtype=float)
    m = v.sum(0) / v.shape[0]
    r = v - m
    return (r * r).sum(0) / v.shape[0]


def genic_var(u_a, count, n, ploidy):
    """ploidy^2 * sum_j a_j^2 p_j (1-p_j); returns (value (t,), structurally_zero (t,) bool)."""
    count = numpy.asarray(count, dtype="int64")
    tot = int(ploidy) * int(n)
    p = count.astype(float) / float(tot)
    seg = (count > 0) & (count < tot)
    pq = numpy.where(seg, p * (1.0 - p), 0.0)
    u = numpy.asarray(u_a, dtype=float)
    val = float(ploidy) ** 2 * (u * u * pq[:, None]).sum(0)
    zero = ~numpy.any((u != 0.0) & seg[:, None], axis=0)
    return val, zero


def rsq(Y, Yhat):
    Y = numpy.asarray(Y, dtype=float)
    sse = ((Y - Yhat) ** 2).sum(0)
    m = Y.sum(0) / Y.shape[0]
    sst = ((Y - m) ** 2).sum(0)
    return sse, sst


# ------------------------------------------------------------------ allele bookkeeping
def allele_tables(u_a, count, n, ploidy):
    """All favourable/deleterious/neutral tables, (p, t), integers and booleans computed on integers."""
    u = numpy.asarray(u_a, dtype=float)
    c = numpy.asarray(count, dtype="int64")[:, None]
    tot = int(ploidy) * int(n)
    pos, neg, zer = u > 0.0, u < 0.0, u == 0.0
    fa = numpy.where(pos, c, numpy.where(neg, tot - c, 0)).astype("int64")
    da = numpy.where(neg, c, numpy.where(pos, tot - c, 0)).astype("int64")
    fixed = (c == 0) | (c == tot)
    out = {
        "facount": fa, "dacount": da,
        "fafreq": fa / float(tot), "dafreq": da / float(tot),
        "faavail": fa > 0, "daavail": da > 0,
        "fafixed": fa == tot, "dafixed": da == tot,
        "fapoly": (fa > 0) & (fa < tot), "dapoly": (da > 0) & (da < tot),
        "nafixed": zer & fixed, "napoly": zer & ~fixed,
    }
    return out


# ------------------------------------------------------------------ ridge regression
def ridge_report(y, Zp, u, lam):
    """Criterion values and normal-equation residual of ``u`` for  min ||yc - Zp u||^2 + lam ||u||^2."""
    y = numpy.asarray(y, dtype=float)
    Zp = numpy.asarray(Zp, dtype=float)
    u = numpy.asarray(u, dtype=float)
    yc = y - y.sum() / len(y)
    r = yc - numpy.einsum("ij,j->i", Zp, u)
    crit_u = float((r * r).sum() + lam * (u * u).sum())
    crit_0 = float((yc * yc).sum())
    b = numpy.einsum("ij,i->j", Zp, yc)
    Au = numpy.einsum("ij,i->j", Zp, numpy.einsum("ij,j->i", Zp, u)) + lam * u
    res = float(numpy.sqrt(((Au - b) ** 2).sum()))
    nb = float(numpy.sqrt((b * b).sum()))
    return {"crit_u": crit_u, "crit_0": crit_0, "res": res, "normb": nb}
