"""Reference model for C09 (genotype summary statistics).

Written from the property statement and the textbook definitions, not from the
library: every count is a Python integer obtained by plain iteration over the raw
allele calls, every frequency is ``fractions.Fraction(count, copies)`` and is
turned into a float only at the very end (``int / int`` in Python is the
correctly rounded quotient, i.e. ``float(Fraction)``).

Definitions (``x[k][i][j]`` in {0,1}: allele on chromosome copy ``k`` of taxon
``i`` at locus ``j``; ``P`` = ploidy, ``n`` taxa, ``m`` loci, ``N = P*n`` copies):

* taxon allele count      d[i][j]  = sum_k x[k][i][j]              (0..P)
* taxon allele frequency  d[i][j] / P
* allele count            c[j]     = sum_i d[i][j]                 (0..N)
* allele frequency        p[j]     = c[j] / N
* minor allele frequency  min(c[j], N - c[j]) / N
* fixed                   c[j] in {0, N};   polymorphic = 0 < c[j] < N  (= not fixed)
* genotype class counts   g[k][j]  = #{i : d[i][j] == k},  k = 0..P   (P+1 classes, column sums n)
* genotype frequencies    g[k][j] / n
* mean expected heterozygosity   (P/m) * sum_j p[j](1-p[j])   (for P = 2 the textbook 2pq averaged over loci;
                                  for P != 2 the gene-diversity reading (2/m) * sum_j p(1-p) is admitted as well)
* codings (diploid):  {0,1,2} = d;  {-1,0,1} = d - 1;  {-1,m,1} = d - 1 with the heterozygotes (0) replaced by the
                      locus mean of the {-1,0,1} coding, (c[j] - n)/n
"""
import collections
from fractions import Fraction


class Ref:
    __slots__ = ("P", "n", "m", "N", "d", "c", "p", "tafreq", "maf", "fixed", "poly", "gt", "gtf",
                 "meh", "meh_alt", "c101", "cm")


def reference(x):
    """``x``: nested Python lists [copy][taxon][locus] of ints in {0,1}."""
    P = len(x); n = len(x[0])
    d = []
    for i in range(n):
        rows = [x[k][i] for k in range(P)]
        d.append([sum(col) for col in zip(*rows)])
    return reference_unphased(d, P)


def reference_unphased(d, P):
    """``d``: nested Python lists [taxon][locus] of per-taxon allele counts in 0..P (an unphased matrix's raw calls)."""
    n = len(d); m = len(d[0])
    N = P * n
    r = Ref()
    r.P, r.n, r.m, r.N = P, n, m, N
    r.d = d
    c = [sum(col) for col in zip(*d)]
    r.c = c
    r.p = [cj / N for cj in c]
    r.tafreq = [[v / P for v in row] for row in d]
    r.maf = [min(cj, N - cj) / N for cj in c]
    r.fixed = [cj == 0 or cj == N for cj in c]
    r.poly = [0 < cj < N for cj in c]
    gt = [[0] * m for _ in range(P + 1)]
    for j, col in enumerate(zip(*d)):
        for k, v in collections.Counter(col).items():
            gt[k][j] = v
    r.gt = gt
    r.gtf = [[v / n for v in row] for row in gt]
    s = sum((Fraction(cj, N) * (1 - Fraction(cj, N)) for cj in c), Fraction(0))
    r.meh = float(Fraction(P, m) * s)
    r.meh_alt = float(Fraction(2, m) * s)
    if P == 2:
        r.c101 = [[v - 1 for v in row] for row in d]
        mean = [(cj - n) / n for cj in c]
        r.cm = [[(mean[j] if v == 1 else float(v - 1)) for j, v in enumerate(row)] for row in d]
    else:
        r.c101 = r.cm = None
    return r
