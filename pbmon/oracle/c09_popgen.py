"""Reference model for C09 (genotype summary statistics).

Written from the property statement and the textbook definitions, not from the
library: every count is a Python integer obtained by plain iteration over the raw
allele calls, every frequency is ``fractions.Fraction(count, copies)`` and is
turned into a float only at the very end (``int / int`` in Python is the
correctly rounded quotient, i.e. ``float(Fraction)``).

Definitions (``x[k][i][j]`` in {0,1}: allele on chromosome copy ``k`` of taxon
``i`` at locus ``j``; ``P`` = ploidy, ``n`` taxa, ``m`` loci, ``N = P*n`` copies):

* taxon allele count      d[i][j]  = sum_k x[k][i][j]              (0..P)
* taxon allele frequency  d[i][j] / P
* allele count            c[j]     = sum_i d[i][j]                 (0..N)
* allele frequency        p[j]     = c[j] / N
* minor allele frequency  min(c[j], N - c[j]) / N
* fixed                   c[j] in {0, N};   polymorphic = 0 < c[j] < N  (= not fixed)
* genotype class counts   g[k][j]  = #{i : d[i][j] == k},  k = 0..P   (P+1 classes, column sums n)
* genotype frequencies    g[k][j] / n
* mean expected heterozygosity   (P/m) * sum_j p[j](1-p[j])   (for P = 2 the textbook 2pq averaged over loci;
                                  for P != 2 the gene-diversity reading (2/m) * sum_j p(1-p) is admitted as well)
* codings (diploid):  {0,1,2} = d;  {-1,0,1} = d - 1;  {-1,m,1} = d - 1 with the heterozygotes (0) replaced by the
                      locus mean of the {-1,0,1} coding, (c[j] - n)/n
"""
import collections
from fractions import Fraction


class Ref:
    __slots__ = ("P", "n", "m", "N", "d", "c", "p", "tafreq", "maf", "fixed", "poly", "gt", "gtf",
                 "meh", "meh_alt", "c101", "cm")


def reference(x):
    """``x``: nested Python lists [copy][taxon][locus] of ints in {0,1}."""
    P = len(x); n = len(x[0])
    d = []
    for i in range(n):
        rows = [x[k][i] for k in range(P)]
        d.append([sum(col) for col in zip(*rows)])
    return reference_unphased(d, P)


def reference_unphased(d, P):
    """``d``: nested Python lists [taxon][locus] of per-taxon allele counts in 0..P (an unphased matrix's raw calls)."""
    n = len(d); m = len(d[0])
    N = P * n
    r = Ref()
    r.P, r.n, r.m, r.N = P, n, m, N
    r.d = d
    c = [sum(col) for col in zip(*d)]
    r.c = c
    r.p = [cj / N for cj in c]
    r.tafreq = [[v / P for v in row] for row in d]
    r.maf = [min(cj, N - cj) / N for cj in c]
    r.fixed = [cj == 0 or cj == N for cj in c]
    r.poly = [0 < cj < N for cj in c]
    gt = [[0] * m for _ in range(P + 1)]
    for j, col in enumerate(zip(*d)):
        for k, v in collections.Counter(col).items():
            gt[k][j] = v
    r.gt = gt
    r.gtf = [[v / n for v in row] for row in gt]
    s = sum((Fraction(cj, N) * (1 - Fraction(cj, N)) for cj in c), Fraction(0))
    r.meh = float(Fraction(P, m) * s)
    r.meh_alt = float(Fraction(2, m) * s)
    if P == 2:
        r.c101 = [[v - 1 for v in row] for row in d]
        mean = [(cj - n) / n for cj in c]
        r.cm = [[(mean[j] if v == 1 else float(v - 1)) for j, v in enumerate(row)] for row in d]
    else:
        r.c101 = r.cm = None
    return r


# ---------------------------------------------------------------------------------------------------------------------
# Large matrices (family "large" of pbmon/props/c09.py): millions of raw calls cannot be walked element by element in
# Python within the budget.  The same definitions are evaluated with
#   * per-taxon counts d and per-locus counts c as *int64* numpy reductions of the int8 calls (an int64 accumulator
#     cannot wrap below 2**63 additions of values <= 6; numpy's integer reductions are part of the trusted base), and
#     cross-checked through a second route that never adds the calls (number of non-zero calls per chromosome copy for
#     phased calls; sum_k k * #{i: d[i][j] == k} from a bincount for unphased calls) - a disagreement is a harness fault;
#   * everything that follows from the counts (frequencies, minor allele frequency, flags, sum_j c(N-c), mean expected
#     heterozygosity) in exact Python integers / Fractions per locus, exactly as in ``reference_unphased``.
class LargeRef:
    """Reference values for one large matrix; per-taxon float tables are built on demand (they are as large as the calls)."""

    def __init__(self, raw, P, phased):
        import numpy
        self._np = numpy
        raw = numpy.asarray(raw)
        d = raw.sum(0, dtype="int64") if phased else raw.astype("int64")
        n, m = d.shape
        N = P * n
        self.P, self.n, self.m, self.N = P, n, m, N
        self.d = d
        c_np = d.sum(0, dtype="int64")
        gt = numpy.bincount((d + (P + 1) * numpy.arange(m, dtype="int64")).ravel(), minlength=(P + 1) * m)
        gt = gt.reshape(m, P + 1).T.astype("int64")
        if phased:
            c2 = sum(numpy.count_nonzero(raw[k], axis=0).astype("int64") for k in range(P))
        else:
            c2 = sum(k * gt[k] for k in range(P + 1))
        if d.min() < 0 or d.max() > P or not numpy.array_equal(c_np, c2) or gt.sum(0).tolist() != [n] * m:
            raise AssertionError("harness fault: the two routes to the allele counts of a large matrix disagree")
        c = [int(v) for v in c_np]
        self.c, self.c_np, self.gt = c, c_np, gt
        self.p = numpy.array([cj / N for cj in c], dtype="float64")
        self.maf = numpy.array([min(cj, N - cj) / N for cj in c], dtype="float64")
        self.fixed = numpy.array([cj == 0 or cj == N for cj in c], dtype=bool)
        self.poly = numpy.array([0 < cj < N for cj in c], dtype=bool)
        self.prod = [cj * (N - cj) for cj in c]           # exact Python integers
        self.S = sum(self.prod)                           # sum_j c(N-c): p(1-p) summed over loci is S / N**2
        self.meh = float(Fraction(P * self.S, m * N * N))
        self.meh_alt = float(Fraction(2 * self.S, m * N * N))
        self.gtf = gt / n

    def tafreq(self):
        return self.d / self.P

    def c101(self):
        return self.d - 1

    def cm(self):
        numpy = self._np
        mean = numpy.array([(cj - self.n) / self.n for cj in self.c], dtype="float64")
        out = (self.d - 1).astype("float64")
        return numpy.where(self.d == 1, mean[None, :], out)

    def expected(self, name):
        if name == "tacount":
            return self.d
        if name == "tafreq":
            return self.tafreq()
        return {"acount": self.c_np, "gtcount": self.gt, "afixed": self.fixed, "apoly": self.poly, "afreq": self.p,
                "maf": self.maf, "meh": self.meh, "gtfreq": self.gtf}[name]
