"""Postcondition monitors for pybrops.core.random.sampling (C17; reused by C07).

Written from the property statement; counts in Python integers / Fractions.
Each function takes the recording context and the observed call.
"""
import collections, fractions, itertools

import numpy


def dupcount(x):
    """Number of repeated individuals within crosses (rows)."""
    return int(sum(len(r) - len(set(r)) for r in numpy.asarray(x).tolist()))


TAU = 1e-9


def _lohi(e, strict):
    """Admissible counts for exact expectation ``e``: {floor, ceil}; when the library's float
    arithmetic is not exact, an expectation within TAU (relative) of an integer admits both
    neighbours' floor/ceil, because a pointer may then sit within rounding of a boundary."""
    if strict:
        return e.__floor__(), e.__ceil__()
    d = fractions.Fraction(TAU) * (1 + abs(e))
    return (e - d).__floor__(), (e + d).__ceil__()


def sus_arithmetic_exact(p, k, offset=0.0):
    """True when tot, tot/k, every pointer offset+i*tot/k and every cumulative sum are computed
    without rounding by IEEE doubles (checked against Fractions), so floor/ceil is decidable exactly."""
    F = fractions.Fraction
    pf = [F(float(x)) for x in p]
    tot = sum(pf)
    if F(float(numpy.asarray(p, dtype=float).sum())) != tot:
        return False
    dist = float(numpy.asarray(p, dtype=float).sum()) / k
    if F(dist) * k != tot:
        return False
    off = F(float(offset))
    for i in range(k):
        if F(float(offset) + dist * i) != off + F(dist) * i:
            return False
    cs = numpy.sort(numpy.asarray(p, dtype=float))[::-1].cumsum()
    acc = F(0)
    for x, c in zip(sorted(pf, reverse=True), cs):
        acc += x
        if F(float(c)) != acc:
            return False
    return True


def check_sus(ctx, a, p, size, out, icls, coords, site="stochastic_universal_sampling", strict=False):
    shape = (int(size),) if numpy.ndim(size) == 0 else tuple(int(s) for s in size)
    k = int(numpy.prod(shape))
    w = {"a": a, "p": p, "size": shape, "out": out}
    ok = ctx.check("C17.sus.shape", isinstance(out, numpy.ndarray) and out.shape == shape, site,
                   "shape == requested", icls, witness=w, coords=coords)
    if not ok:
        return
    cnt = collections.Counter(numpy.asarray(out).ravel().tolist())
    pf = [fractions.Fraction(float(x)) for x in p]
    tot = sum(pf)
    # a may hold repeated values: aggregate expectations per distinct value
    exp = collections.defaultdict(fractions.Fraction)
    zero = collections.defaultdict(lambda: True)
    for v, x in zip(numpy.asarray(a).tolist(), pf):
        exp[v] += x * k / tot
        zero[v] = zero[v] and x == 0
    nrep = collections.Counter(numpy.asarray(a).tolist())
    ctx.check("C17.sus.member", all(v in exp for v in cnt), site, "draws are elements of a", icls, witness=w, coords=coords)
    ctx.check("C17.sus.zero", not any(cnt.get(v, 0) > 0 for v in exp if zero[v]), site,
              "zero-weight element never selected", icls, witness=w, coords=coords)
    if max(nrep.values()) == 1:
        bad = [v for v, e in exp.items() if not (_lohi(e, strict)[0] <= cnt.get(v, 0) <= _lohi(e, strict)[1])]
        ctx.ok("C17.sus.floorceil.strict") if strict else None
        ctx.check("C17.sus.floorceil", not bad, site, "count in {floor(e),ceil(e)}", icls + ("/exact-arithmetic" if strict else ""),
                  witness=dict(w, bad=bad, counts=dict(cnt), expected=[float(exp[v]) for v in bad]), coords=coords)
    else:  # repeated option values: each occurrence floor/ceil => sum bounds
        lo = collections.Counter(); hi = collections.Counter()
        for v, x in zip(numpy.asarray(a).tolist(), pf):
            e = x * k / tot
            l_, h_ = _lohi(e, strict)
            lo[v] += l_; hi[v] += h_
        bad = [v for v in exp if not (lo[v] <= cnt.get(v, 0) <= hi[v])]
        ctx.check("C17.sus.floorceil", not bad, site, "count in {floor(e),ceil(e)}", icls + "/repeated-options",
                  witness=dict(w, bad=bad, counts=dict(cnt)), coords=coords)


def check_tiled(ctx, a, size, out, icls, coords, site="tiled_choice"):
    shape = (int(size),) if numpy.ndim(size) == 0 else tuple(int(s) for s in size)
    k = int(numpy.prod(shape))
    w = {"a": a, "size": shape, "out": out}
    ok = ctx.check("C17.tiled.shape", isinstance(out, numpy.ndarray) and out.shape == shape, site,
                   "shape == requested", icls, witness=w, coords=coords)
    if not ok:
        return
    cnt = collections.Counter(numpy.asarray(out).ravel().tolist())
    mult = collections.Counter(numpy.asarray(a).tolist())
    ctx.check("C17.tiled.member", all(v in mult for v in cnt), site, "draws are options", icls, witness=w, coords=coords)
    qu, re = divmod(k, len(a))
    bad = [v for v, m in mult.items() if not (m * qu <= cnt.get(v, 0) <= m * qu + min(m, re))]
    ctx.check("C17.tiled.balance", not bad and sum(cnt.values()) == k, site,
              "every option used floor(k/n) or floor(k/n)+1 times", icls,
              witness=dict(w, bad=bad, counts=dict(cnt)), coords=coords)


def slices_of(shape, axes):
    """Independent enumeration of the slices an axis shuffle may permute within:
    one index tuple per combination of positions along ``axes``."""
    axes = tuple(sorted(a % len(shape) for a in axes))
    for combo in itertools.product(*[range(shape[a]) for a in axes]):
        ix = [slice(None)] * len(shape)
        for a, i in zip(axes, combo):
            ix[a] = i
        yield tuple(ix)


def check_axis_shuffle(ctx, before, after, axes, icls, coords, site="axis_shuffle"):
    w = {"before": before, "after": after, "axis": axes}
    ok = after.shape == before.shape and after.dtype == before.dtype
    nsl = 0
    bad = None
    if ok:
        for s in slices_of(before.shape, axes):
            nsl += 1
            if sorted(numpy.asarray(before[s]).ravel().tolist()) != sorted(numpy.asarray(after[s]).ravel().tolist()):
                bad = [x if not isinstance(x, slice) else ":" for x in s]
                break
    ctx.check("C17.axis.multiset", ok and bad is None, site, "multiset of every requested slice unchanged", icls,
              witness=dict(w, slice=bad), coords=coords)
    return nsl


def check_outcross(ctx, before, after, icls, coords, site="outcross_shuffle"):
    w = {"before": before, "after": after}
    ctx.check("C17.outcross.multiset", after.shape == before.shape and
              sorted(before.ravel().tolist()) == sorted(after.ravel().tolist()), site,
              "multiset of entries preserved", icls, witness=w, coords=coords)
    d0, d1 = dupcount(before), dupcount(after)
    ctx.check("C17.outcross.noincrease", d1 <= d0, site, "repeats within crosses not increased", icls,
              witness=dict(w, dup_before=d0, dup_after=d1), coords=coords)
    # local optimality: no single exchange of two entries reduces the count
    better = None
    if d1 > 0:
        tab = numpy.asarray(after).reshape(len(after), -1)
        ncol = tab.shape[1]
        rows = [r.tolist() for r in tab]
        rdup = [len(r) - len(set(r)) for r in rows]
        n = tab.size
        for i in range(n):
            ri, ci = divmod(i, ncol)
            for j in range(i + 1, n):
                rj, cj = divmod(j, ncol)
                if ri == rj or rows[ri][ci] == rows[rj][cj]:
                    continue  # exchange cannot change the count
                a2, b2 = list(rows[ri]), list(rows[rj])
                a2[ci], b2[cj] = b2[cj], a2[ci]
                d = d1 - rdup[ri] - rdup[rj] + (len(a2) - len(set(a2))) + (len(b2) - len(set(b2)))
                if d < d1:
                    better = (i, j, d)
                    break
            if better:
                break
    ctx.check("C17.outcross.localopt", better is None, site, "no single exchange reduces repeats", icls,
              witness=dict(w, exchange=better, dup_after=d1), coords=coords)
    return d0, d1
