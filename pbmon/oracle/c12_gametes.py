"""C12 oracle: exact gamete-distribution engine for diploid individuals on L <= 7 biallelic loci.

Written from the property statement, not from the library: a gamete of an individual (h0, h1) is obtained by
choosing for every locus the strand it is copied from; an *origin pattern* (one strand per locus) has probability
1/2 * prod_k (r_k if the strand switches between locus k-1 and k else 1 - r_k) -- no interference, r_k = Haldane
recombination fraction of the interval (1/2 between chromosomes).  All 2^L patterns are enumerated.  Populations are
probability vectors over the 4^L ordered diploid states; ``cross``, ``selfed`` and the final doubled-haploid step are
exact operations on those vectors.  The variance / between-trait covariance of the additive value 2 * g.u (+ intercept)
over the doubled haploids is then computed from the enumerated distribution.

Nothing of pybrops is imported here.
"""
import math

import numpy


def haldane(d):
    """Haldane (no interference) map function, d in Morgans."""
    return 0.5 * (1.0 - math.exp(-2.0 * d)) if d < float("inf") else 0.5


def interval_r(chrgrp, genpos, unlinked=False):
    """r[j] = recombination fraction between locus j-1 and j (r[0] unused = 0.5)."""
    L = len(genpos)
    r = [0.5] * L
    for j in range(1, L):
        if unlinked or chrgrp[j] != chrgrp[j - 1]:
            r[j] = 0.5
        else:
            r[j] = haldane(abs(float(genpos[j]) - float(genpos[j - 1])))
    return r


def map_order(chrgrp, genpos):
    """Order of the loci along the genetic map (chromosome, then genetic position; stable).  Crossovers happen along
    the chromosome, so the origin pattern of a gamete switches between loci that are *adjacent on the map*, whatever
    the order in which the markers happen to be stored."""
    chrgrp = numpy.asarray(chrgrp)
    genpos = numpy.asarray(genpos, dtype=float)
    return numpy.lexsort((genpos, chrgrp))


def hap_index(h):
    """Haplotype (sequence of 0/1 alleles) -> integer state, locus j = bit j."""
    return int(sum((int(a) & 1) << j for j, a in enumerate(h)))


class Engine:
    """Exact distributions for a fixed vector of interval recombination fractions."""

    def __init__(self, r):
        self.L = L = len(r)
        if L > 7:
            raise ValueError("enumeration is limited to 7 loci")
        self.H = H = 1 << L
        pat = numpy.arange(H)
        q = numpy.full(H, 0.5)
        for j in range(1, L):
            sw = ((pat >> j) & 1) != ((pat >> (j - 1)) & 1)
            q = q * numpy.where(sw, r[j], 1.0 - r[j])
        self.q = q  # probability of every origin pattern; sums to 1
        h0 = numpy.arange(H)[:, None]
        h1 = numpy.arange(H)[None, :]
        rows = numpy.arange(H * H)
        G = numpy.zeros((H * H, H))
        mask = H - 1
        for p in range(H):
            g = ((h0 & (~p & mask)) | (h1 & p)).ravel()
            G[rows, g] += q[p]   # (row, g) pairs are unique inside one pattern
        self.G = G               # G[(h0,h1), g] = P(gamete g | individual (h0,h1))
        self.bits = ((numpy.arange(H)[:, None] >> numpy.arange(L)[None, :]) & 1).astype(float)  # (H, L)

    # -- populations: vectors of length H*H over ordered pairs (h0, h1) -> index h0*H + h1
    def individual(self, h0, h1):
        P = numpy.zeros(self.H * self.H)
        P[hap_index(h0) * self.H + hap_index(h1)] = 1.0
        return P

    def gametes(self, P):
        nz = numpy.flatnonzero(P)
        return P[nz] @ self.G[nz]

    def cross(self, gA, gB):
        """Offspring population of the union of a gamete drawn from gA with one drawn from gB."""
        return numpy.outer(gA, gB).ravel()

    def selfed(self, P):
        """Every individual of P is selfed (both gametes from the same individual)."""
        nz = numpy.flatnonzero(P)
        Gs = self.G[nz]
        return ((Gs * P[nz, None]).T @ Gs).ravel()

    def het_mass(self, P):
        M = P.reshape(self.H, self.H)
        return float(P.sum() - numpy.trace(M))

    def advance(self, P, nself):
        """nself generations of selfing; inf = iterate to the fixed point (heterozygous mass < 1e-15)."""
        if nself == float("inf"):
            for _ in range(400):
                if self.het_mass(P) < 1e-15:
                    return P
                P = self.selfed(P)
            raise RuntimeError("selfing did not converge")
        for _ in range(int(nself)):
            P = self.selfed(P)
        return P

    def dh_moments(self, P, u, beta=None):
        """Mean (t,) and covariance (t,t) of the additive value of the doubled haploids made from population P."""
        gd = self.gametes(P)
        V = 2.0 * (self.bits @ u)
        if beta is not None:
            V = V + numpy.asarray(beta, dtype=float).reshape(1, -1)
        m = gd @ V
        C = V - m[None, :]
        return m, (C * gd[:, None]).T @ C


# ---------------------------------------------------------------- the four schemes, worded as in the property
def pop_twoway(E, hap, idx):
    f, m = idx
    return E.individual(hap[f][0], hap[m][0])          # F1 of two inbred parents (inbred: phase 0 == phase 1)


def pop_threeway(E, hap, idx):
    rc, f, m = idx
    g1 = E.gametes(E.individual(hap[f][0], hap[m][0]))     # gamete of the F1 (female x male)
    g0 = E.gametes(E.individual(hap[rc][0], hap[rc][1]))   # gamete of the (inbred) recurrent parent
    return E.cross(g0, g1)


def pop_fourway(E, hap, idx):
    a, b, c, d = idx                                      # (a x b) x (c x d)
    g1 = E.gametes(E.individual(hap[a][0], hap[b][0]))
    g2 = E.gametes(E.individual(hap[c][0], hap[d][0]))
    return E.cross(g1, g2)


def pop_dihybrid(E, hap, idx):
    f, m = idx                                            # cross of two (heterozygous) individuals
    g1 = E.gametes(E.individual(hap[f][0], hap[f][1]))
    g2 = E.gametes(E.individual(hap[m][0], hap[m][1]))
    return E.cross(g1, g2)


SCHEMES = {"twoway": (2, pop_twoway), "threeway": (3, pop_threeway), "fourway": (4, pop_fourway), "dihybrid": (2, pop_dihybrid)}


def exact_moments(E, scheme, hap, idx, nself, u, beta=None):
    """hap[taxon] = (phase0 alleles, phase1 alleles).  Returns (mean (t,), covariance (t,t)) of the DH progeny."""
    P = SCHEMES[scheme][1](E, hap, idx)
    P = E.advance(P, nself)
    return E.dh_moments(P, u, beta)


# ---------------------------------------------------------------- pairwise marginal engine for L > 7
def pair_r(r, l, m):
    """Recombination fraction between loci l < m: odd number of switches over independent intervals."""
    x = 1.0
    for k in range(l + 1, m + 1):
        x *= (1.0 - 2.0 * r[k])
    return 0.5 * (1.0 - x)


class PairwiseOracle:
    """Covariance of the additive DH value from two-locus enumerations (exact marginals of the L-locus process:
    the strands chosen at two loci differ with probability pair_r, independently of the other loci)."""

    def __init__(self, r):
        self.r = list(r)
        self.L = len(r)
        self._eng = {}

    def engine(self, rlm):
        e = self._eng.get(rlm)
        if e is None:
            e = self._eng[rlm] = Engine([0.5, rlm])
        return e

    def allele_cov(self, scheme, hap, idx, nself):
        """(L,L) covariance matrix of the gamete allele indicators of the final DH distribution."""
        L = self.L
        S = numpy.zeros((L, L))
        for l in range(L):
            for m in range(l, L):
                if l == m:
                    E = self.engine(0.0)   # a locus is completely linked to itself
                    sub = [([h[0][l], h[0][l]], [h[1][l], h[1][l]]) for h in hap]
                else:
                    E = self.engine(pair_r(self.r, l, m))
                    sub = [([h[0][l], h[0][m]], [h[1][l], h[1][m]]) for h in hap]
                P = E.advance(SCHEMES[scheme][1](E, sub, idx), nself)
                gd = E.gametes(P)
                pl = gd[1] + gd[3]
                pm = gd[2] + gd[3]
                S[l, m] = S[m, l] = gd[3] - pl * pm
        return S

    def cov(self, scheme, hap, idx, nself, u):
        S = self.allele_cov(scheme, hap, idx, nself)
        return 4.0 * (u.T @ S @ u)


def selftest():
    """Internal consistency: pattern probabilities sum to one; pairwise marginal oracle == full enumeration."""
    g = numpy.random.default_rng(1)
    r = [0.5, 0.1, 0.5, 0.0, 0.31]
    E = Engine(r)
    assert abs(E.q.sum() - 1) < 1e-15 and numpy.allclose(E.G.sum(1), 1)
    hap = []
    for _ in range(4):
        h0 = g.integers(0, 2, 5); h1 = g.integers(0, 2, 5)
        hap.append((h0, h1))
    u = g.normal(size=(5, 2))
    PW = PairwiseOracle(r)
    for scheme, idx in (("dihybrid", (0, 1)), ("dihybrid", (2, 2))):
        for ns in (0, 1, 3, float("inf")):
            _, c = exact_moments(E, scheme, hap, idx, ns, u)
            assert numpy.allclose(c, PW.cov(scheme, hap, idx, ns, u), atol=1e-12), (scheme, ns)
    inb = [(h[0], h[0]) for h in hap]
    for scheme, idx in (("twoway", (0, 1)), ("threeway", (0, 1, 1)), ("threeway", (2, 0, 1)), ("fourway", (0, 1, 2, 3)), ("fourway", (0, 1, 1, 1))):
        for ns in (0, 2, float("inf")):
            _, c = exact_moments(E, scheme, inb, idx, ns, u)
            assert numpy.allclose(c, PW.cov(scheme, inb, idx, ns, u), atol=1e-12), (scheme, ns)
    return True


if __name__ == "__main__":
    print(selftest())
