"""Class-aware observable equality for persistable pybrops objects (C16).

Written from the property statement: an object is observed through its *data*,
*labels*, *group metadata* and *parameters*.  The field tables below list, per
family, the public attributes that make up each category; nothing here is copied
from the library's writers/readers.  Comparison is exact (dtype, shape, values,
NaN == NaN, python type of label elements) unless the caller passes a tolerance
for a route whose own options require arithmetic.
"""
import hashlib

import numpy

# ---------------------------------------------------------------- field tables
TAXA_GRP_IX = ("taxa_grp_name", "taxa_grp_stix", "taxa_grp_spix", "taxa_grp_len")
VRNT_GRP_IX = ("vrnt_chrgrp_name", "vrnt_chrgrp_stix", "vrnt_chrgrp_spix", "vrnt_chrgrp_len")

# category of every field: data | labels | grouplabels | groupindex | params
FAMILY = {
    "gmat": dict(
        data=("mat", "vrnt_phypos", "vrnt_genpos", "vrnt_xoprob", "vrnt_mask"),
        labels=("taxa", "vrnt_name", "vrnt_hapalt", "vrnt_hapref", "vrnt_hapgrp"),
        grouplabels=("taxa_grp", "vrnt_chrgrp"),
        groupindex=TAXA_GRP_IX + VRNT_GRP_IX,
        params=("ploidy",)),
    "bvmat": dict(
        data=("mat",), labels=("taxa", "trait"), grouplabels=("taxa_grp",), groupindex=TAXA_GRP_IX,
        params=("location", "scale", "behaviour")),
    "cmat": dict(
        data=("mat",), labels=("taxa",), grouplabels=("taxa_grp",), groupindex=TAXA_GRP_IX, params=()),
    "vmat": dict(
        data=("mat",), labels=("taxa", "trait"), grouplabels=("taxa_grp",), groupindex=TAXA_GRP_IX, params=()),
    "gmap": dict(
        data=("vrnt_phypos", "vrnt_genpos"), labels=(), grouplabels=("vrnt_chrgrp",), groupindex=VRNT_GRP_IX,
        params=("spline_kind", "spline_fill_value", "spline", "behaviour")),
    "egmap": dict(
        data=("vrnt_phypos", "vrnt_stop", "vrnt_genpos"), labels=("vrnt_name", "vrnt_fncode"), grouplabels=("vrnt_chrgrp",),
        groupindex=VRNT_GRP_IX, params=("spline_kind", "spline_fill_value", "spline", "behaviour")),
    "algmod": dict(
        data=("beta", "u_misc", "u_a"), labels=("trait",), grouplabels=(), groupindex=(),
        params=("model_name", "hyperparams", "behaviour")),
    "adgmod": dict(
        data=("beta", "u_misc", "u_a", "u_d"), labels=("trait",), grouplabels=(), groupindex=(),
        params=("model_name", "hyperparams", "behaviour")),
    "rrblup": dict(
        data=("beta", "u_misc", "u_a"), labels=("trait",), grouplabels=(), groupindex=(),
        params=("model_name", "hyperparams", "method", "behaviour")),
    "gept": dict(
        data=(), labels=(), grouplabels=(), groupindex=(), params=("nenv", "nrep", "var_env", "var_rep", "var_err", "gpmod")),
    "truept": dict(data=(), labels=(), grouplabels=(), groupindex=(), params=("gpmod",)),
}
CATS = ("data", "labels", "grouplabels", "groupindex", "params")


def family_of(obj):
    """Family by class (checked from most to least specific)."""
    from pybrops.popgen.gmat.DenseGenotypeMatrix import DenseGenotypeMatrix
    from pybrops.popgen.bvmat.DenseBreedingValueMatrix import DenseBreedingValueMatrix
    from pybrops.popgen.cmat.DenseCoancestryMatrix import DenseCoancestryMatrix
    from pybrops.core.mat.DenseSquareTaxaTraitMatrix import DenseSquareTaxaTraitMatrix
    from pybrops.popgen.gmap.ExtendedGeneticMap import ExtendedGeneticMap
    from pybrops.popgen.gmap.StandardGeneticMap import StandardGeneticMap
    from pybrops.model.gmod.rrBLUPModel0 import rrBLUPModel0
    from pybrops.model.gmod.DenseAdditiveDominanceLinearGenomicModel import DenseAdditiveDominanceLinearGenomicModel
    from pybrops.model.gmod.DenseAdditiveLinearGenomicModel import DenseAdditiveLinearGenomicModel
    from pybrops.breed.prot.pt.G_E_Phenotyping import G_E_Phenotyping
    from pybrops.breed.prot.pt.TruePhenotyping import TruePhenotyping
    for cls, fam in ((DenseGenotypeMatrix, "gmat"), (DenseBreedingValueMatrix, "bvmat"), (DenseCoancestryMatrix, "cmat"),
                     (DenseSquareTaxaTraitMatrix, "vmat"), (ExtendedGeneticMap, "egmap"), (StandardGeneticMap, "gmap"),
                     (rrBLUPModel0, "rrblup"), (DenseAdditiveDominanceLinearGenomicModel, "adgmod"),
                     (DenseAdditiveLinearGenomicModel, "algmod"), (G_E_Phenotyping, "gept"), (TruePhenotyping, "truept")):
        if isinstance(obj, cls):
            return fam
    from pybrops.core.mat.DenseMatrix import DenseMatrix
    if isinstance(obj, DenseMatrix):   # core matrix classes: the labelled-matrix fields the class has
        fam = "core:" + type(obj).__name__
        if fam not in FAMILY:
            allf = dict(data=("mat", "vrnt_phypos", "vrnt_genpos", "vrnt_xoprob", "vrnt_mask"),
                        labels=("taxa", "trait", "vrnt_name", "vrnt_hapalt", "vrnt_hapref", "vrnt_hapgrp"),
                        grouplabels=("taxa_grp", "vrnt_chrgrp"), groupindex=TAXA_GRP_IX + VRNT_GRP_IX, params=())
            FAMILY[fam] = {cat: tuple(f for f in fs if hasattr(type(obj), f)) for cat, fs in allf.items()}
        return fam
    raise TypeError("no observation table for %s" % type(obj).__name__)


def category(fam, field):
    for cat in CATS:
        if field in FAMILY[fam][cat]:
            return cat
    raise KeyError(field)


class Missing:
    """Attribute could not be read."""
    def __init__(self, why):
        self.why = why

    def __repr__(self):
        return "<unreadable: %s>" % self.why


def observe(obj):
    """dict field -> raw attribute value (no copies: callers that need a snapshot use ``freeze``)."""
    fam = family_of(obj)
    out = {"__class__": type(obj).__module__ + "." + type(obj).__name__, "__family__": fam}
    for cat in CATS:
        for f in FAMILY[fam][cat]:
            try:
                v = None if f == "behaviour" else getattr(obj, f)
            except Exception as e:  # an unreadable public attribute is itself observable
                v = Missing("%s: %s" % (type(e).__name__, str(e)[:80]))
            if f == "behaviour":
                v = _behaviour(obj, fam)
            elif f == "gpmod" and v is not None and not isinstance(v, Missing):
                v = observe(v)
            elif f == "spline" and isinstance(v, dict):
                v = {k: _spline_obs(s) for k, s in v.items()}
            out[f] = v
    return out


def _call(fn):
    """Result of a behavioural query, or the name of the exception it raises (both are observable)."""
    try:
        v = fn()
    except Exception as e:
        return "raises %s" % type(e).__name__
    if hasattr(v, "vrnt_genpos") and not isinstance(v, numpy.ndarray):      # a map returned by interp_gmap
        return {"vrnt_chrgrp": v.vrnt_chrgrp, "vrnt_phypos": v.vrnt_phypos, "vrnt_genpos": v.vrnt_genpos}
    return v


def _behaviour(obj, fam):
    """What the object *does* with its (possibly non-default) construction options: queries whose answers depend on
    parameters that no array attribute shows (interpolation kind / fill value of a map, location and scale of a
    breeding-value matrix, the coefficient blocks of a genomic model)."""
    if fam == "bvmat":
        return {"unscale()": _call(obj.unscale)}
    if fam in ("algmod", "adgmod", "rrblup"):
        def pred():
            q, k = int(obj.nexplan_beta), int(obj.nexplan_u)
            X = ((numpy.arange(3 * q).reshape(3, q) % 4) - 1.0) if q else numpy.zeros((3, 0))
            Z = (numpy.arange(3 * k).reshape(3, k) % 3).astype(float)
            return obj.predict_numpy(X, Z)
        return {"predict_numpy(X, Z)": _call(pred)}
    if fam in ("gmap", "egmap"):
        try:
            chrs = numpy.asarray(obj.vrnt_chrgrp); pos = numpy.asarray(obj.vrnt_phypos); gen = numpy.asarray(obj.vrnt_genpos)
            ic, ip, bc, bp = [], [], [], []
            for u in numpy.unique(chrs):
                p = numpy.unique(pos[chrs == u])
                inside = numpy.unique(numpy.concatenate([p, (p[:-1] + p[1:]) // 2, (3 * p[:-1] + p[1:]) // 4]))
                ic += [u] * len(inside); ip += inside.tolist()
                bc += [u, u, u, u]; bp += [int(p.min()) - 7, int(p.min()) - 1, int(p.max()) + 1, int(p.max()) + 11]
            ic = numpy.array(ic, dtype=chrs.dtype); ip = numpy.array(ip, dtype=pos.dtype)
            bc = numpy.array(bc, dtype=chrs.dtype); bp = numpy.array(bp, dtype=pos.dtype)
            o = numpy.lexsort((bp, bc)); bc, bp = bc[o], bp[o]
            og = numpy.lexsort((gen, chrs))
            # the library's position queries group (sort) an ungrouped map in place, as documented for congruence(); an
            # observation must not change the object, so an ungrouped map is queried through a stand-in that carries the
            # same interpolators and parameters over copies of the arrays
            if not obj.is_grouped():
                kw = dict(vrnt_chrgrp=chrs.copy(), vrnt_phypos=pos.copy(), vrnt_genpos=gen.copy(), spline=obj.spline,
                          spline_kind=obj.spline_kind, spline_fill_value=obj.spline_fill_value, auto_group=True, auto_build_spline=False)
                if fam == "egmap":
                    kw["vrnt_stop"] = numpy.array(obj.vrnt_stop, copy=True)
                obj = type(obj)(**kw)
        except Exception as e:
            return Missing("behaviour queries: %s" % type(e).__name__)
        return {
            "interp_genpos between markers": _call(lambda: obj.interp_genpos(ic, ip)),
            "interp_genpos beyond the map ends": _call(lambda: obj.interp_genpos(bc, bp)),
            "interp_gmap between markers": _call(lambda: obj.interp_gmap(ic, ip, ip + 1) if fam == "egmap" else obj.interp_gmap(ic, ip)),
            "gdist1p between markers": _call(lambda: obj.gdist1p(ic, ip)),
            "gdist2p between markers": _call(lambda: obj.gdist2p(ic, ip)),
            "gdist1p beyond the map ends": _call(lambda: obj.gdist1p(bc, bp)),
            "gdist1g own markers": _call(lambda: obj.gdist1g(chrs[og], gen[og])),
            "gdist2g own markers": _call(lambda: obj.gdist2g(chrs[og], gen[og])),
        }
    return None


def _spline_obs(s):
    """A fitted interpolator is observed through its knots and its values on and around the knots."""
    try:
        x = numpy.asarray(s.x, dtype=float)
        y = numpy.asarray(s.y, dtype=float)
        q = numpy.unique(numpy.concatenate([x, (x[:-1] + x[1:]) / 2.0, [x.min() - 7.0, x.max() + 11.0]]))
        try:
            val = numpy.asarray(s(q), dtype=float)
        except Exception as e:
            val = "raises %s" % type(e).__name__
        qi = q[(q >= x.min()) & (q <= x.max())]
        try:
            vali = numpy.asarray(s(qi), dtype=float)
        except Exception as e:
            vali = "raises %s" % type(e).__name__
        return {"x": s.x, "y": s.y, "eval": val, "eval inside the knots": vali, "__x": x, "__y": y}
    except Exception as e:
        return Missing("spline: %s" % type(e).__name__)


# ---------------------------------------------------------------- comparison
def _scalar_kind(v):
    if isinstance(v, (bool, numpy.bool_)):
        return "bool"
    if isinstance(v, (int, numpy.integer)):
        return "int"
    if isinstance(v, (float, numpy.floating)):
        return "float"
    if isinstance(v, str):
        return "str"
    if isinstance(v, bytes):
        return "bytes"
    return type(v).__name__


def _arr_diff(a, b, tol):
    """None when the two arrays are observably equal, else a short reason."""
    if a.shape != b.shape:
        return "shape %s != %s" % (a.shape, b.shape)
    if a.dtype != b.dtype:
        return "dtype %s != %s" % (a.dtype, b.dtype)
    if a.dtype == object:
        la, lb = a.ravel().tolist(), b.ravel().tolist()
        for i, (x, y) in enumerate(zip(la, lb)):
            if _scalar_kind(x) != _scalar_kind(y):
                return "element %d: %s %r != %s %r" % (i, _scalar_kind(x), x, _scalar_kind(y), y)
            if not (x == y or (x != x and y != y)):
                return "element %d: %r != %r" % (i, x, y)
        return None
    if a.dtype.kind in "fc":
        na, nb = numpy.isnan(a), numpy.isnan(b)
        if not numpy.array_equal(na, nb):
            return "NaN pattern differs"
        aa, bb = a[~na], b[~nb]
        if numpy.array_equal(aa, bb):
            return None
        with numpy.errstate(all="ignore"):
            err = numpy.abs(aa - bb)
            err = numpy.where(numpy.isfinite(err), err, numpy.inf)
            err[(aa == bb)] = 0.0
        worst = float(err.max()) if err.size else 0.0
        if tol is not None:
            scale = float(numpy.max(numpy.abs(aa[numpy.isfinite(aa)]))) if numpy.isfinite(aa).any() else 0.0
            if worst <= tol * scale + 1e-12:
                return None
        return "values differ (max abs err %.3g)" % worst
    if not numpy.array_equal(a, b):
        i = int(numpy.flatnonzero((a != b).ravel())[0])
        return "values differ (first at flat index %d: %r != %r)" % (i, a.ravel()[i].item(), b.ravel()[i].item())
    return None


def value_diff(a, b, tol=None):
    """None when equal; reason string otherwise.  Handles None, arrays, scalars, str, dict, nested observations."""
    if isinstance(a, Missing) or isinstance(b, Missing):
        return None if (isinstance(a, Missing) and isinstance(b, Missing)) else "unreadable on one side: %r vs %r" % (a, b)
    if a is None or b is None:
        return None if (a is None and b is None) else ("None vs %s" % _short(b) if a is None else "%s vs None" % _short(a))
    if isinstance(a, numpy.ndarray) or isinstance(b, numpy.ndarray):
        if not (isinstance(a, numpy.ndarray) and isinstance(b, numpy.ndarray)):
            # numpy scalar/0-d array vs python scalar: compare by kind and value
            if numpy.ndim(a) == 0 and numpy.ndim(b) == 0:
                return value_diff(a[()] if isinstance(a, numpy.ndarray) else a, b[()] if isinstance(b, numpy.ndarray) else b, tol)
            return "array vs %s" % (type(b).__name__ if isinstance(a, numpy.ndarray) else type(a).__name__)
        return _arr_diff(a, b, tol)
    if isinstance(a, dict) or isinstance(b, dict):
        if not (isinstance(a, dict) and isinstance(b, dict)):
            return "dict vs %s" % type(b if isinstance(a, dict) else a).__name__
        ka, kb = set(a.keys()), set(b.keys())
        if ka != kb:
            return "keys differ: only in first %s, only in second %s" % (sorted(map(repr, ka - kb)), sorted(map(repr, kb - ka)))
        for k in a:
            if isinstance(k, str) and k.startswith("__") and k not in ("__class__", "__family__"):
                continue
            d = value_diff(a[k], b[k], tol)
            if d is not None:
                return "[%r] %s" % (k, d)
        return None
    if isinstance(a, (list, tuple)) or isinstance(b, (list, tuple)):
        if not (isinstance(a, (list, tuple)) and isinstance(b, (list, tuple))) or type(a) is not type(b):
            return "%s vs %s" % (type(a).__name__, type(b).__name__)
        if len(a) != len(b):
            return "length %d != %d" % (len(a), len(b))
        for i, (x, y) in enumerate(zip(a, b)):
            d = value_diff(x, y, tol)
            if d is not None:
                return "[%d] %s" % (i, d)
        return None
    ka, kb = _scalar_kind(a), _scalar_kind(b)
    if ka != kb:
        return "%s %r vs %s %r" % (ka, a, kb, b)
    if ka == "float":
        fa, fb = float(a), float(b)
        if fa == fb or (fa != fa and fb != fb):
            return None
        if tol is not None and abs(fa - fb) <= tol * abs(fa) + 1e-12:
            return None
        return "%r != %r" % (a, b)
    try:
        eq = bool(a == b)
    except Exception:
        eq = False
    return None if eq else "%r != %r" % (a, b)


def _short(v):
    if isinstance(v, numpy.ndarray):
        return "array%s/%s" % (v.shape, v.dtype)
    if isinstance(v, dict):
        return "dict(%d)" % len(v)
    return repr(v)[:40]


def diff(oa, ob, tol=None, skip=(), same_class=True):
    """List of (field, category, reason) for every field of observation ``oa`` that differs in ``ob``."""
    out = []
    fam = oa["__family__"]
    if same_class and oa["__class__"] != ob["__class__"]:
        out.append(("__class__", "params", "%s != %s" % (oa["__class__"], ob["__class__"])))
    for cat in CATS:
        for f in FAMILY[fam][cat]:
            if f in skip:
                continue
            t = tol.get(f) if isinstance(tol, dict) else tol
            if f == "behaviour" and t is None:
                t = 1e-9      # answers are computed (matrix products, interpolation): equal inputs in another memory layout
                              # may differ in the last bits
            d = value_diff(oa.get(f), ob.get(f, Missing("no such field")), t)
            if d is not None:
                out.append((f, cat, d))
    return out


# ---------------------------------------------------------------- snapshots / aliasing
def freeze(v):
    """Deep, library-independent snapshot of an observation (arrays copied)."""
    if isinstance(v, numpy.ndarray):
        return numpy.array(v, copy=True)
    if isinstance(v, dict):
        return {k: freeze(x) for k, x in v.items()}
    if isinstance(v, (list, tuple)):
        return type(v)(freeze(x) for x in v)
    return v


def arrays(obs, prefix=""):
    """Every ndarray reachable from an observation: list of (path, array)."""
    out = []
    items = obs.items() if isinstance(obs, dict) else enumerate(obs)
    for k, v in items:
        if isinstance(k, str) and k.startswith("__"):
            continue
        p = "%s%s" % (prefix, k)
        if isinstance(v, numpy.ndarray):
            out.append((p, v))
        elif isinstance(v, (dict, list, tuple)):     # nested containers (e.g. free-form hyperparameter dictionaries)
            out.extend(arrays(v, p + "."))
    return out


def containers(v, depth=0):
    """Every mutable container (dict / list) reachable from ``v``: list of (depth, container)."""
    out = []
    if isinstance(v, dict):
        out.append((depth, v))
        for k, x in list(v.items()):
            if not (isinstance(k, str) and k.startswith("__")):
                out.extend(containers(x, depth + 1))
    elif isinstance(v, (list, tuple)):
        if isinstance(v, list):
            out.append((depth, v))
        for x in v:
            out.extend(containers(x, depth + 1))
    return out


def digest(obs):
    h = hashlib.blake2b(digest_size=12)

    def upd(v):
        if isinstance(v, numpy.ndarray):
            h.update(str(v.dtype).encode()); h.update(str(v.shape).encode())
            h.update(repr(v.tolist()).encode() if v.dtype == object else numpy.ascontiguousarray(v).tobytes())
        elif isinstance(v, dict):
            for k in sorted(v.keys(), key=repr):
                if isinstance(k, str) and k.startswith("__") and k not in ("__class__", "__family__"):
                    continue
                h.update(repr(k).encode()); upd(v[k])
        elif isinstance(v, (list, tuple)):
            h.update(type(v).__name__.encode())
            for x in v:
                upd(x)
        else:
            h.update(repr(v).encode())
        h.update(b"|")
    upd(obs)
    return h.hexdigest()


def scramble(arr, g):
    """Overwrite an array's contents *in place* with different values of the same dtype; returns True if it changed."""
    if arr.size == 0 or not arr.flags.writeable:
        return False
    if arr.dtype == object:
        for i, idx in enumerate(numpy.ndindex(arr.shape)):
            arr[idx] = "☠mut%d" % i
        return True
    if arr.dtype == bool:
        numpy.logical_not(arr, out=arr)
        return True
    if arr.dtype.kind in "iu":
        info = numpy.iinfo(arr.dtype)
        arr[...] = numpy.where(arr >= info.max - 3, arr - 3, arr + 3)
        return True
    if arr.dtype.kind == "f":
        arr[...] = numpy.where(numpy.isnan(arr), 1.5, arr * 0.5 + 17.25)
        return True
    return False
