"""Helpers of the C20 check (breeding-programme loop protocol).

* ``canon`` / ``dg``: value digest of an arbitrary state container (dicts, lists, sets, arrays, plain objects,
  pybrops matrices ...).  Equality of digests == deep value equality; aliasing *between* acyclic sub-objects is
  deliberately ignored (two references to one list and two equal lists digest the same), cycles are encoded by
  their distance on the recursion stack, so a deep copy always digests like its original.
* the optional ``sink`` collects every *mutable* object reached (id -> object, the reference keeps the id unique);
  used to decide whether two states share a mutable object.
* ``gen_state``: class-based generator of initial states (five dict containers).
* ``mutate``: one seeded in-place mutation somewhere inside a container (what a hostile operator does).
Nothing here is derived from the library's code.
"""
import hashlib
import types

import numpy

NAMES = ("genome", "geno", "pheno", "bval", "gmod")
_ATOMS = (type, types.ModuleType, types.FunctionType, types.BuiltinFunctionType, types.MethodType)


class Box(object):
    """Plain mutable python object placed inside generated states."""

    def __init__(self, **kw):
        self.__dict__.update(kw)


def is_mutable(o):
    if isinstance(o, (dict, list, set, bytearray, numpy.ndarray)):
        return True
    if isinstance(o, _ATOMS) or isinstance(o, (numpy.generic, numpy.dtype)):
        return False
    return hasattr(o, "__dict__")


def canon(o, sink=None, stack=None):
    if o is None or isinstance(o, (bool, int, str, bytes)):
        return (type(o).__name__, o)
    if isinstance(o, float):
        return ("float", repr(o))
    if isinstance(o, complex):
        return ("complex", repr(o))
    if isinstance(o, numpy.generic):
        return ("npscalar", o.dtype.str, repr(o.item()))
    if isinstance(o, _ATOMS):
        return ("atom", getattr(o, "__module__", None), getattr(o, "__qualname__", getattr(o, "__name__", "?")))
    if stack is None:
        stack = []
    oid = id(o)
    if oid in stack:
        return ("cycle", len(stack) - stack.index(oid))
    if sink is not None and is_mutable(o):
        sink[oid] = o
    stack.append(oid)
    try:
        if isinstance(o, numpy.ndarray):
            if sink is not None:  # views share memory with their base: register the owner of the buffer as well
                b = o
                while isinstance(b.base, numpy.ndarray):
                    b = b.base
                sink[id(b)] = b
            if o.dtype == object:
                return ("ndarray-object", o.shape, tuple(canon(x, sink, stack) for x in o.ravel().tolist()))
            return ("ndarray", o.dtype.str, o.shape, o.tobytes())
        if isinstance(o, dict):
            items = [(canon(k, sink, stack), canon(v, sink, stack)) for k, v in o.items()]
            items.sort(key=lambda kv: repr(kv[0]))
            return ("dict", tuple(items))
        if isinstance(o, list):
            return ("list", tuple(canon(x, sink, stack) for x in o))
        if isinstance(o, tuple):
            return ("tuple", tuple(canon(x, sink, stack) for x in o))
        if isinstance(o, (set, frozenset)):
            return (type(o).__name__, tuple(sorted((canon(x, sink, stack) for x in o), key=repr)))
        if isinstance(o, bytearray):
            return ("bytearray", bytes(o))
        if hasattr(o, "__dict__"):
            return ("object", type(o).__module__, type(o).__qualname__, canon(vars(o), sink, stack))
        return ("repr", type(o).__qualname__, repr(o))
    finally:
        stack.pop()


def dg(o, sink=None):
    return hashlib.blake2b(repr(canon(o, sink)).encode(), digest_size=10).hexdigest()


def dgs(conts, sink=None):
    return [dg(c, sink) for c in conts]


def brief(o, limit=600):
    s = repr(canon(o))
    return s if len(s) <= limit else s[:limit] + "...(%d chars)" % len(s)


# ------------------------------------------------------------------ initial states
STATE_CLASSES = ["empty", "scalars", "nested", "arrays", "objects", "aliased", "mixedkeys", "pybrops"]


def _scalar(g):
    k = int(g.integers(0, 9))
    return [0, -1, int(g.integers(-5, 100)), "s%d" % int(g.integers(0, 9)), float(g.normal()), None, float("nan"), True,
            (int(g.integers(0, 3)), "t")][k]


def _nested(g, depth=0):
    k = int(g.integers(0, 8 if depth < 2 else 5))
    if k == 0:
        return [int(x) for x in g.integers(0, 9, int(g.integers(0, 5)))]
    if k == 1:
        return set(int(x) for x in g.integers(0, 9, int(g.integers(0, 4))))
    if k == 2:
        return bytearray(int(x) for x in g.integers(0, 255, int(g.integers(1, 4))))
    if k == 3:
        return ([int(g.integers(0, 9))], "tuple-holding-a-list")
    if k == 4:
        return _scalar(g)
    if k == 5:
        return [_nested(g, depth + 1) for _ in range(int(g.integers(1, 4)))]
    if k == 6:
        return {"k%d" % i: _nested(g, depth + 1) for i in range(int(g.integers(1, 4)))}
    return {"deep": {"deeper": [[_scalar(g)], {"x": [1, 2, 3]}]}}


def _array(g):
    k = int(g.integers(0, 7))
    n, p = int(g.integers(1, 6)), int(g.integers(1, 7))
    if k == 0:
        return g.integers(0, 2, (2, n, p)).astype("int8")
    if k == 1:
        return g.normal(size=(n, int(g.integers(1, 3))))
    if k == 2:
        return numpy.zeros((0, p))
    if k == 3:
        a = numpy.empty(n, dtype=object)
        for i in range(n):
            a[i] = [i, [int(g.integers(0, 5))]]
        return a
    if k == 4:
        return numpy.asfortranarray(g.normal(size=(n, p)))
    if k == 5:
        return numpy.array(["t%02d" % i for i in range(n)], dtype=object)
    a = g.normal(size=n)
    a[int(g.integers(n))] = numpy.nan
    return a


def _object(g, depth=0):
    k = int(g.integers(0, 5))
    if k == 0:
        return Box(a=int(g.integers(0, 9)), items=[1, 2], arr=g.integers(0, 3, 4))
    if k == 1 and depth < 2:
        return Box(child=_object(g, depth + 1), tags={"x": [0]})
    if k == 2:
        return Box(fn=len, cls=Box, val=_scalar(g))
    if k == 3:
        return [Box(i=i, hist=[]) for i in range(int(g.integers(1, 4)))]
    return Box()


def _pgmat(g):
    from pybrops.popgen.gmat.DensePhasedGenotypeMatrix import DensePhasedGenotypeMatrix
    n, p = int(g.integers(2, 6)), int(g.integers(2, 8))
    mat = g.integers(0, 2, (2, n, p)).astype("int8")
    chrgrp = numpy.sort(g.integers(1, 3, p)).astype("int64")
    pg = DensePhasedGenotypeMatrix(
        mat, taxa=numpy.array(["t%03d" % i for i in range(n)], dtype=object), taxa_grp=g.integers(0, 3, n).astype("int64"),
        vrnt_chrgrp=chrgrp, vrnt_phypos=numpy.arange(1, p + 1, dtype="int64") * 10,
        vrnt_name=numpy.array(["m%d" % i for i in range(p)], dtype=object),
        vrnt_genpos=numpy.cumsum(g.uniform(0, 0.3, p)), vrnt_xoprob=g.uniform(0, 0.5, p))
    if g.random() < 0.5:
        pg.group_vrnt()
    return pg


def _bvmat(g):
    from pybrops.popgen.bvmat.DenseBreedingValueMatrix import DenseBreedingValueMatrix
    n = int(g.integers(2, 6))
    return DenseBreedingValueMatrix.from_numpy(
        g.normal(size=(n, 2)) + 3, taxa=numpy.array(["t%03d" % i for i in range(n)], dtype=object),
        taxa_grp=g.integers(0, 3, n).astype("int64"), trait=numpy.array(["y1", "y2"], dtype=object))


def gen_state(g, cls):
    """Five dict containers of input class ``cls`` (live objects; the caller digests them before use)."""
    S = [dict() for _ in NAMES]
    if cls == "empty":
        return S
    if cls == "pybrops":
        S[0]["cand"] = _pgmat(g)
        S[0]["main"] = _pgmat(g)
        S[1]["cand"] = S[0]["cand"].mat.sum(0).astype("int8")
        S[2]["main"] = g.normal(size=(3, 2))
        S[3]["cand"] = _bvmat(g)
        S[4]["true"] = {"beta": g.normal(size=(1, 2)), "u": g.normal(size=(4, 2))}
        return S
    for i, d in enumerate(S):
        nk = int(g.integers(0 if cls != "scalars" else 1, 5))
        for j in range(nk):
            if cls == "mixedkeys":
                key = [j, (j, "k"), None, frozenset([j]), 2.5 + j, "k%d" % j][int(g.integers(0, 6))]
            else:
                key = ["cand", "main", "queue", "true", "k%d" % j][j] if g.random() < 0.6 else "k%d" % j
            if cls == "scalars":
                d[key] = _scalar(g)
            elif cls in ("nested", "mixedkeys", "aliased"):
                d[key] = _nested(g)
            elif cls == "arrays":
                d[key] = _array(g)
            elif cls == "objects":
                d[key] = _object(g)
    if cls == "arrays":  # a view and its base in the same state
        base = g.integers(0, 5, (4, 6))
        S[0]["base"] = base
        S[int(g.integers(0, 5))]["view"] = base[::2, 1:4]
    if cls == "aliased":
        shared = [0, [1, 2], {"s": []}]
        S[0]["shared"] = shared
        S[0]["shared-again"] = shared
        S[int(g.integers(1, 5))]["shared"] = shared            # the same list in two containers
        S[int(g.integers(0, 5))]["self"] = S[int(g.integers(0, 5))]  # a container inside a container (possibly itself)
        loop = [1]
        loop.append(loop)
        S[int(g.integers(0, 5))]["loop"] = loop
        sa = g.integers(0, 4, 5)
        S[1]["arr"] = sa
        S[3]["arr"] = sa
    return S


# ------------------------------------------------------------------ hostile in-place mutation
def _children(o):
    if isinstance(o, dict):
        vals = list(o.values())
    elif isinstance(o, list):
        vals = list(o)
    elif isinstance(o, numpy.ndarray):
        vals = o.ravel().tolist() if o.dtype == object else []
    elif isinstance(o, (set, bytearray)):
        vals = []
    elif hasattr(o, "__dict__"):
        vals = list(vars(o).values())
    else:
        vals = []
    out = []
    for v in vals:
        if isinstance(v, tuple):
            out.extend(x for x in v if is_mutable(x))
        elif is_mutable(v):
            out.append(v)
    return out


def mutate(g, cont, tag):
    """Apply one in-place mutation at a random depth inside dict ``cont``; returns a short description."""
    tgt = cont
    for _ in range(int(g.integers(0, 4))):
        kids = _children(tgt)
        if not kids:
            break
        tgt = kids[int(g.integers(len(kids)))]
    r = float(g.random())
    if isinstance(tgt, dict):
        keys = list(tgt.keys())
        if keys and r < 0.2:
            del tgt[keys[int(g.integers(len(keys)))]]
            return "del key"
        if keys and r < 0.4:
            tgt[keys[int(g.integers(len(keys)))]] = ["replaced", tag]
            return "replace value"
        if keys and r < 0.45:
            tgt.clear()
            return "clear dict"
        tgt[("mut", tag)] = [tag] if r < 0.8 else numpy.arange(3) + int(g.integers(0, 9))
        return "insert key"
    if isinstance(tgt, list):
        if tgt and r < 0.25:
            tgt.pop(int(g.integers(len(tgt))))
            return "list pop"
        if tgt and r < 0.4:
            tgt[int(g.integers(len(tgt)))] = ("overwritten", tag)
            return "list setitem"
        if tgt and r < 0.45:
            del tgt[:]
            return "list clear"
        tgt.append(("grown", tag))
        return "list append"
    if isinstance(tgt, set):
        tgt.add(("mut", tag))
        return "set add"
    if isinstance(tgt, bytearray):
        tgt.append(int(g.integers(0, 255)))
        return "bytearray append"
    if isinstance(tgt, numpy.ndarray):
        if tgt.size == 0 or not tgt.flags.writeable:
            cont[("mut", tag)] = [tag]
            return "insert key (array not writable/empty)"
        i = int(g.integers(tgt.size))
        idx = numpy.unravel_index(i, tgt.shape)
        if tgt.dtype == object:
            tgt[idx] = ["overwritten", tag]
        elif tgt.dtype.kind in "iu":
            tgt[idx] = tgt[idx] + 1 if r < 0.7 else 0
            if r >= 0.9:
                tgt[...] = 1 - tgt
        elif tgt.dtype.kind == "f":
            tgt[idx] = 7.25 + float(g.random())   # positive: keeps validated fields (e.g. a scale vector) constructible
            if r >= 0.9:
                tgt[...] = tgt + 1.0
        elif tgt.dtype.kind == "b":
            tgt[idx] = not tgt[idx]
        else:
            cont[("mut", tag)] = [tag]
            return "insert key (array dtype)"
        return "array overwrite in place"
    # plain harness object: new attribute.  Library objects keep exactly their own fields (their classes copy field by field,
    # an ad-hoc attribute would not survive the class's own __deepcopy__ and that is not the programme's business)
    if isinstance(tgt, Box):
        setattr(tgt, "hx_" + "_".join(str(x) for x in tag), [tag])
        return "object setattr"
    cont[("mut", tag)] = [tag]
    return "insert key (library object left intact)"
