"""Helpers of the C20 check (breeding-programme loop protocol).

* ``canon`` / ``dg``: value digest of an arbitrary state container (dicts, lists, sets, arrays, plain objects,
  pybrops matrices ...).  Equality of digests == deep value equality; aliasing *between* acyclic sub-objects is
  deliberately ignored (two references to one list and two equal lists digest the same), cycles are encoded by
  their distance on the recursion stack, so a deep copy always digests like its original.
* the optional ``sink`` collects every *mutable* object reached (id -> object, the reference keeps the id unique);
  used to decide whether two states share a mutable object.
* ``gen_state``: class-based generator of initial states (five dict containers).
* ``mutate``: one seeded in-place mutation somewhere inside a container (what a hostile operator does).
* library objects (genotype / breeding value / coancestry matrices, genetic maps, genomic models ...) are digested
  through what a user can observe (every public property of the class: data arrays, labels, group labels, group index
  metadata, parameters, shapes) and, when ``probe`` is set, through behavioural probes (is_grouped_*(), afreq(), unscale(),
  gegv_numpy() / gebv_numpy() on a fixed marker matrix, interpolation of a genetic map); pandas frames through their
  columns, index and dtypes.  Private attributes are walked only for the alias sink.
* ``gen_state(g, "library")``: start_genome/geno/pheno/bval/gmod dicts holding real library objects of every kind the
  containers are documented to hold.
* ``user_subclass``: a user's subclass of a library class (same constructor, class attribute, one overridden query method);
  with the stream ``gs`` about a third of the generated library objects are instances of one.  Such instances are library
  objects for the digests (decided through the MRO) and their class is part of what is compared (``__class__``).
Nothing here is derived from the library's code.
"""
import hashlib
import types

import numpy

NAMES = ("genome", "geno", "pheno", "bval", "gmod")
_PLAIN = (str, int, float, bool, type(None))
_ATOMS = (type, types.ModuleType, types.FunctionType, types.BuiltinFunctionType, types.MethodType)


class Box(object):
    """Plain mutable python object placed inside generated states."""

    def __init__(self, **kw):
        self.__dict__.update(kw)


def is_mutable(o):
    if isinstance(o, (dict, list, set, bytearray, numpy.ndarray)):
        return True
    if isinstance(o, _ATOMS) or isinstance(o, (numpy.generic, numpy.dtype)):
        return False
    return hasattr(o, "__dict__")


def canon(o, sink=None, stack=None, probe=False):
    if o is None or isinstance(o, (bool, int, str, bytes)):
        return (type(o).__name__, o)
    if isinstance(o, float):
        return ("float", repr(o))
    if isinstance(o, complex):
        return ("complex", repr(o))
    if isinstance(o, numpy.generic):
        return ("npscalar", o.dtype.str, repr(o.item()))
    if isinstance(o, _ATOMS):
        return ("atom", getattr(o, "__module__", None), getattr(o, "__qualname__", getattr(o, "__name__", "?")))
    if stack is None:
        stack = []
    oid = id(o)
    if oid in stack:
        return ("cycle", len(stack) - stack.index(oid))
    if sink is not None and is_mutable(o):
        sink[oid] = o
    stack.append(oid)
    try:
        if isinstance(o, numpy.ndarray):
            if sink is not None:  # views share memory with their base: register the owner of the buffer as well
                b = o
                while isinstance(b.base, numpy.ndarray):
                    b = b.base
                sink[id(b)] = b
            if o.dtype == object:
                lst = o.ravel().tolist()
                if all(type(x) in _PLAIN for x in lst):     # label arrays: one repr instead of a walk per element
                    return ("ndarray-object-plain", o.shape, repr([(type(x).__name__, x) for x in lst]) if any(type(x) is not str for x in lst) else repr(lst))
                return ("ndarray-object", o.shape, tuple(canon(x, sink, stack, probe) for x in lst))
            return ("ndarray", o.dtype.str, o.shape, o.tobytes())
        if isinstance(o, dict):
            items = [(canon(k, sink, stack, probe), canon(v, sink, stack, probe)) for k, v in o.items()]
            items.sort(key=lambda kv: repr(kv[0]))
            return ("dict", tuple(items))
        if isinstance(o, list):
            return ("list", tuple(canon(x, sink, stack, probe) for x in o))
        if isinstance(o, tuple):
            return ("tuple", tuple(canon(x, sink, stack, probe) for x in o))
        if isinstance(o, (set, frozenset)):
            return (type(o).__name__, tuple(sorted((canon(x, sink, stack, probe) for x in o), key=repr)))
        if isinstance(o, bytearray):
            return ("bytearray", bytes(o))
        if isinstance(o, (numpy.random.Generator, numpy.random.RandomState)):
            st = o.bit_generator.state if isinstance(o, numpy.random.Generator) else o.get_state(legacy=False)
            return ("rng", type(o).__name__, canon(st, None, stack, False))
        lib = _canon_library(o, sink, stack, probe)
        if lib is not None:
            return lib
        if hasattr(o, "__dict__"):
            return ("object", type(o).__module__, type(o).__qualname__, canon(vars(o), sink, stack, probe))
        return ("repr", type(o).__qualname__, repr(o))
    finally:
        stack.pop()


def _canon_library(o, sink, stack, probe):
    """pandas objects and pybrops objects with an observation table; None for anything else."""
    mod = type(o).__module__ or ""
    if mod.startswith("pandas"):
        import pandas
        if isinstance(o, pandas.DataFrame):
            if sink is not None and probe:      # comparisons with the initial state: register the column buffers as well
                for c in o.columns:
                    canon(o[c].to_numpy(), sink, stack, False)
            return ("DataFrame", repr(list(o.columns)), repr([str(t) for t in o.dtypes]), repr(o.to_numpy(dtype=object).tolist()),
                    repr(o.index.tolist()), str(o.index.dtype))
        if isinstance(o, pandas.Series):
            arr = o.to_numpy()
            if sink is not None:
                canon(arr, sink, stack, False)
            return ("Series", canon(o.name, None, stack), str(o.dtype), canon(arr, None, stack), canon(numpy.asarray(o.index.to_numpy()), None, stack))
        return None
    if not is_library(o):      # instances of a user's subclass of a library class are library objects too
        return None
    if not probe:     # hand-over digests (every step): the cheap walk over the instance's own fields is enough there;
        return None   # the observable-equality walk is for comparisons with the initial state (probe=True)
    names = public_fields(type(o))
    if not names:
        return None
    if sink is not None:    # aliasing is a matter of the private fields too
        canon(vars(o), sink, stack, False)
    items = [("__class__", type(o).__module__ + "." + type(o).__qualname__)]
    index, _CTX["index"] = _CTX["index"], None      # nested library objects belong to their owner's fields
    try:
        for k in names:
            try:
                v = getattr(o, k)
            except Exception as e:      # an unreadable public attribute is itself observable
                items.append((k, ("unreadable", type(e).__name__)))
                continue
            items.append((k, canon(v, sink, stack, probe)))
        beh = canon(behaviour(o), None, stack, False) if probe else None
    finally:
        _CTX["index"] = index
    if index is not None:
        rec = {k: v for k, v in items}      # incl. "__class__": a copy of another class is a differing copy
        if beh is not None:
            for k, v in beh[1]:
                rec["behaviour: %s" % k[1]] = v
        index.append((type(o).__qualname__, rec))
        return ("library-object-placeholder",)
    out = ("library-object", tuple(items))
    if probe:
        out = out + (beh,)
    return out


def lib_index(conts):
    """(digest of each container with its library objects masked, [(class name, {field or probe: canonical value})] in
    order of encounter).  Used to say *which* library object of a state differs and in which fields."""
    sk, index = [], []
    _CTX["index"] = index
    try:
        for c in conts:
            sk.append(hashlib.blake2b(repr(canon(c, None, None, True)).encode(), digest_size=10).hexdigest())
    finally:
        _CTX["index"] = None
    return sk, index


def lib_diff(conts_a, conts_b, info=None):
    """None when the two states differ outside their library objects (or hold different numbers of them); else a list of
    (class name in conts_a, sorted differing fields) for the library objects that differ; the pseudo-field "__class__"
    differs when the counterpart is an instance of another class (e.g. the base class of a user's subclass)."""
    ska, ia = lib_index(conts_a)
    skb, ib = lib_index(conts_b)
    if info is not None:
        info["user_subclass_instances"] = sum(1 for name, _ in ia if name.startswith("UserSubclass"))
    if ska != skb or len(ia) != len(ib):
        return None
    out = []
    for (ca, ra), (cb, rb) in zip(ia, ib):
        bad = sorted(k for k in set(ra) | set(rb) if ra.get(k) != rb.get(k))
        if bad:
            out.append((ca, bad))
    return out


_FIELDS = {}
_ISLIB = {}


def is_library(o):
    """Instance of a class of the library or of a (user's) class derived from one."""
    t = type(o)
    r = _ISLIB.get(t)
    if r is None:
        r = _ISLIB[t] = any((c.__module__ or "").startswith("pybrops") for c in t.__mro__)
    return r


def user_subclass_of(o):
    """Name of the library class a user's subclass (made by ``user_subclass``) derives from, else None."""
    return getattr(type(o), "_user_subclass_of", None)


def count_user_subclass_instances(conts):
    return sum(1 for name, _ in lib_index(conts)[1] if name.startswith("UserSubclass"))


_USERSUB = {}


def user_subclass(base, level=1):
    """What a user of the library writes: a subclass of a concrete library class with the SAME constructor, a class
    attribute and one overridden query method (additive models report breeding values on another scale, genotype matrices
    report the frequency of the other allele, breeding value matrices round their means, genetic maps interpolate in
    centimorgans); level 2 = a subclass of such a subclass.  Instances are as valid in a state container as instances of
    the base class; an equal state holds an instance of the same class, which answers the same way."""
    key = (base, level)
    cls = _USERSUB.get(key)
    if cls is not None:
        return cls
    parent = base if level == 1 else user_subclass(base, level - 1)
    ns = {"units": "user scale (level %d)" % level, "_user_subclass_of": base.__name__,
          "describe": lambda self: "%s on %s" % (type(self).__name__, self.units), "__module__": __name__}
    fam = _family_cls(base)
    if level == 1:
        if fam == "gmod":
            def gebv_numpy(self, Z, **kwargs):
                return parent.gebv_numpy(self, Z, **kwargs) * 1.5
            ns["gebv_numpy"] = gebv_numpy
        elif fam == "gmat":
            def afreq(self, *args, **kwargs):
                return 1.0 - parent.afreq(self, *args, **kwargs)
            ns["afreq"] = afreq
        elif fam == "bvmat":
            def tmean(self, *args, **kwargs):
                return numpy.round(parent.tmean(self, *args, **kwargs), 2)
            ns["tmean"] = tmean
        elif fam == "gmap":
            def interp_genpos(self, *args, **kwargs):
                return numpy.asarray(parent.interp_genpos(self, *args, **kwargs)) * 100.0
            ns["interp_genpos"] = interp_genpos
    cls = type("User%s%s" % ("" if level == 1 else "2", base.__name__), (parent,), ns)
    cls.__qualname__ = "UserSubclass%s[%s]" % ("" if level == 1 else "2", base.__name__)
    _USERSUB[key] = cls
    return cls


def _ucls(gs, cls):
    """The class to instantiate: the library class itself or (own stream ``gs``, ~35 %) a user's subclass of it."""
    if gs is None or gs.random() >= 0.35:
        return cls
    return user_subclass(cls, 1 if gs.random() < 0.7 else 2)
_CTX = {"index": None}    # when a list: library objects are recorded there and replaced by a placeholder (see lib_index)


def public_fields(cls):
    """What a user can read off an object of this class: every public property defined anywhere in its MRO (data arrays,
    labels, group labels, group index metadata, parameters, shapes ...).  Class-agnostic on purpose: no table to keep."""
    got = _FIELDS.get(cls)
    if got is None:
        got = []
        for name in sorted(dir(cls)):
            if name.startswith("_"):
                continue
            if isinstance(getattr(cls, name, None), property):
                got.append(name)
        _FIELDS[cls] = got = tuple(got)
    return got


def _try(fn):
    try:
        return fn()
    except Exception as e:
        return "raises %s" % type(e).__name__


def _family(o):
    return _family_cls(type(o))


def _family_cls(t):
    names = [c.__name__ for c in t.__mro__]
    for key, fam in (("GenotypeMatrix", "gmat"), ("BreedingValueMatrix", "bvmat"), ("GenomicModel", "gmod"), ("GeneticMap", "gmap")):
        if key in names:
            return fam
    return "other"


def behaviour(o):
    """Behavioural probes: what the object *does*, computed with fixed arguments derived from its own shape only.
    Every probe is a read-only query (checked: observing twice gives the same digest)."""
    fam = _family(o)
    out = {}
    for m in ("is_grouped_taxa", "is_grouped_vrnt", "is_grouped_trait"):
        if hasattr(o, m):
            out[m] = _try(getattr(o, m))
    if hasattr(o, "is_grouped"):
        out["is_grouped()"] = _try(o.is_grouped)
    for a in ("ntaxa", "nvrnt", "ntrait", "nphase", "ploidy", "mat_format"):
        if hasattr(type(o), a):
            out[a] = _try(lambda a=a: getattr(o, a))
    if fam == "gmat":
        out["afreq"] = _try(o.afreq)
        out["mat_asformat{0,1,2}"] = _try(lambda: o.mat_asformat("{0,1,2}"))
    elif fam == "bvmat":
        out["unscale"] = _try(o.unscale)
        out["tmean"] = _try(o.tmean)
    elif fam == "gmod":
        p = _try(lambda: int(o.u_a.shape[0]))
        if isinstance(p, int):
            A = numpy.random.Generator(numpy.random.PCG64(20200)).integers(0, 3, (6, p)).astype(float)   # fixed marker matrix
            AD = numpy.concatenate([A, (A == 1.0).astype(float)], axis=1)
            for nm, Z in (("A", A), ("A|D", AD)):
                out["gegv_numpy(%s)" % nm] = _try(lambda Z=Z: o.gegv_numpy(Z))
                out["gebv_numpy(%s)" % nm] = _try(lambda Z=Z: o.gebv_numpy(Z))
    elif fam == "gmap" and _try(o.is_grouped) is True and isinstance(_try(lambda: o.spline), dict):
        # (an ungrouped map or one without interpolators would group / fit itself when asked: a probe must not change its object)
        def interp():
            chrs = numpy.asarray(o.vrnt_chrgrp)
            pos = numpy.asarray(o.vrnt_phypos)
            return o.interp_genpos(chrs, pos + 2)
        out["interp_genpos"] = _try(interp)
    return out


def dg(o, sink=None, probe=False):
    return hashlib.blake2b(repr(canon(o, sink, None, probe)).encode(), digest_size=10).hexdigest()


def dgs(conts, sink=None, probe=False):
    return [dg(c, sink, probe) for c in conts]


def brief(o, limit=600):
    s = repr(canon(o, None, None, True))
    return s if len(s) <= limit else s[:limit] + "...(%d chars)" % len(s)


# ------------------------------------------------------------------ container and integer types
class StateDict(dict):
    """A user's dict subclass carrying extra attributes (still a dict for every isinstance-based contract)."""

    def __init__(self, *a, **k):
        dict.__init__(self, *a, **k)
        self.note = "user container"
        self.history = []


class TInt(int):
    """A user's int subclass (e.g. an enum-like constant); bool-free, still an int for every isinstance-based contract."""


CONTAINER_KINDS = ("OrderedDict", "defaultdict", "dict subclass with attributes", "mixed dict subclasses")


def wrap_container(kind, d, g):
    """A new container of the requested dict (sub)class with the items of ``d`` (shallow)."""
    import collections
    if kind == "mixed dict subclasses":
        kind = CONTAINER_KINDS[int(g.integers(0, 3))]
    if kind == "OrderedDict":
        return collections.OrderedDict(d)
    if kind == "defaultdict":
        return collections.defaultdict(list, d)
    if kind == "dict subclass with attributes":
        return StateDict(d)
    return dict(d)


def wrap_state(kind, S, g):
    """Initial state whose five containers (and the plain dicts directly inside them) are dict subclasses."""
    if kind == "dict":
        return S
    for d in S:
        for k, v in list(d.items()):
            if type(v) is dict and not any(v is x for x in S):
                d[k] = wrap_container(kind, v, g)
    return [wrap_container(kind, d, g) for d in S]


# ------------------------------------------------------------------ initial states
STATE_CLASSES = ["empty", "scalars", "nested", "arrays", "objects", "aliased", "mixedkeys", "pybrops", "library", "library"]


def _scalar(g):
    k = int(g.integers(0, 9))
    return [0, -1, int(g.integers(-5, 100)), "s%d" % int(g.integers(0, 9)), float(g.normal()), None, float("nan"), True,
            (int(g.integers(0, 3)), "t")][k]


def _nested(g, depth=0):
    k = int(g.integers(0, 8 if depth < 2 else 5))
    if k == 0:
        return [int(x) for x in g.integers(0, 9, int(g.integers(0, 5)))]
    if k == 1:
        return set(int(x) for x in g.integers(0, 9, int(g.integers(0, 4))))
    if k == 2:
        return bytearray(int(x) for x in g.integers(0, 255, int(g.integers(1, 4))))
    if k == 3:
        return ([int(g.integers(0, 9))], "tuple-holding-a-list")
    if k == 4:
        return _scalar(g)
    if k == 5:
        return [_nested(g, depth + 1) for _ in range(int(g.integers(1, 4)))]
    if k == 6:
        return {"k%d" % i: _nested(g, depth + 1) for i in range(int(g.integers(1, 4)))}
    return {"deep": {"deeper": [[_scalar(g)], {"x": [1, 2, 3]}]}}


def _array(g):
    k = int(g.integers(0, 7))
    n, p = int(g.integers(1, 6)), int(g.integers(1, 7))
    if k == 0:
        return g.integers(0, 2, (2, n, p)).astype("int8")
    if k == 1:
        return g.normal(size=(n, int(g.integers(1, 3))))
    if k == 2:
        return numpy.zeros((0, p))
    if k == 3:
        a = numpy.empty(n, dtype=object)
        for i in range(n):
            a[i] = [i, [int(g.integers(0, 5))]]
        return a
    if k == 4:
        return numpy.asfortranarray(g.normal(size=(n, p)))
    if k == 5:
        return numpy.array(["t%02d" % i for i in range(n)], dtype=object)
    a = g.normal(size=n)
    a[int(g.integers(n))] = numpy.nan
    return a


def _object(g, depth=0):
    k = int(g.integers(0, 5))
    if k == 0:
        return Box(a=int(g.integers(0, 9)), items=[1, 2], arr=g.integers(0, 3, 4))
    if k == 1 and depth < 2:
        return Box(child=_object(g, depth + 1), tags={"x": [0]})
    if k == 2:
        return Box(fn=len, cls=Box, val=_scalar(g))
    if k == 3:
        return [Box(i=i, hist=[]) for i in range(int(g.integers(1, 4)))]
    return Box()


def _pgmat(g, gs=None):
    from pybrops.popgen.gmat.DensePhasedGenotypeMatrix import DensePhasedGenotypeMatrix
    DensePhasedGenotypeMatrix = _ucls(gs, DensePhasedGenotypeMatrix)
    n, p = int(g.integers(2, 6)), int(g.integers(2, 8))
    mat = g.integers(0, 2, (2, n, p)).astype("int8")
    chrgrp = numpy.sort(g.integers(1, 3, p)).astype("int64")
    pg = DensePhasedGenotypeMatrix(
        mat, taxa=numpy.array(["t%03d" % i for i in range(n)], dtype=object), taxa_grp=g.integers(0, 3, n).astype("int64"),
        vrnt_chrgrp=chrgrp, vrnt_phypos=numpy.arange(1, p + 1, dtype="int64") * 10,
        vrnt_name=numpy.array(["m%d" % i for i in range(p)], dtype=object),
        vrnt_genpos=numpy.cumsum(g.uniform(0, 0.3, p)), vrnt_xoprob=g.uniform(0, 0.5, p))
    if g.random() < 0.5:
        pg.group_vrnt()
    return pg


def _bvmat(g, gs=None):
    from pybrops.popgen.bvmat.DenseBreedingValueMatrix import DenseBreedingValueMatrix
    DenseBreedingValueMatrix = _ucls(gs, DenseBreedingValueMatrix)
    n = int(g.integers(2, 6))
    return DenseBreedingValueMatrix.from_numpy(
        g.normal(size=(n, 2)) + 3, taxa=numpy.array(["t%03d" % i for i in range(n)], dtype=object),
        taxa_grp=g.integers(0, 3, n).astype("int64"), trait=numpy.array(["y1", "y2"], dtype=object))


def _labels(g, n, prefix):
    k = int(g.integers(0, 3))
    if k == 0:
        lab = ["%s%03d" % (prefix, i) for i in range(n)]
    elif k == 1:
        lab = ["%s-ñ%02d" % (prefix, i) for i in range(n)]
    else:
        lab = ["%s%02d" % (prefix, i) for i in g.permutation(n)]
    return numpy.array(lab, dtype=object)


GROUPINGS = ("taxa only", "variants only", "taxa and variants", "neither")


def lib_gmat(g, phased, grouping=None, n=None, p=None, gs=None):
    from pybrops.popgen.gmat.DenseGenotypeMatrix import DenseGenotypeMatrix
    from pybrops.popgen.gmat.DensePhasedGenotypeMatrix import DensePhasedGenotypeMatrix
    DenseGenotypeMatrix, DensePhasedGenotypeMatrix = _ucls(gs, DenseGenotypeMatrix), _ucls(gs, DensePhasedGenotypeMatrix)
    n = n or int(g.integers(2, 8)); p = p or int(g.integers(2, 10))
    grouping = grouping or GROUPINGS[int(g.integers(0, 4))]
    kw = dict(taxa=_labels(g, n, "t"), vrnt_name=_labels(g, p, "m"))
    full = g.random() < 0.6
    if grouping in ("taxa only", "taxa and variants") or g.random() < 0.5:
        kw["taxa_grp"] = g.integers(0, 3, n).astype("int64")
    if grouping in ("variants only", "taxa and variants") or g.random() < 0.5:
        kw["vrnt_chrgrp"] = g.integers(1, 4, p).astype("int64")
        kw["vrnt_phypos"] = g.permutation(numpy.arange(1, p + 1, dtype="int64") * 7)
    if full:
        kw["vrnt_genpos"] = g.uniform(0, 2, p)
        kw["vrnt_xoprob"] = g.uniform(0, 0.5, p)
        kw["vrnt_hapgrp"] = g.integers(0, 4, p).astype("int64")
        kw["vrnt_hapalt"] = numpy.array([["A", "C", "G", "T"][int(x)] for x in g.integers(0, 4, p)], dtype=object)
        kw["vrnt_hapref"] = numpy.array([["A", "C", "G", "T"][int(x)] for x in g.integers(0, 4, p)], dtype=object)
        kw["vrnt_mask"] = g.random(p) < 0.5
    if phased:
        nph = int([2, 2, 2, 1, 3][int(g.integers(0, 5))])
        obj = DensePhasedGenotypeMatrix(g.integers(0, 2, (nph, n, p)).astype("int8"), **kw)
    else:
        ploidy = int([2, 2, 2, 1, 4][int(g.integers(0, 5))])
        obj = DenseGenotypeMatrix(g.integers(0, ploidy + 1, (n, p)).astype("int8"), ploidy=ploidy, **kw)
    if grouping in ("taxa only", "taxa and variants"):
        obj.group_taxa()
    if grouping in ("variants only", "taxa and variants"):
        obj.group_vrnt()
    return obj


def lib_bvmat(g, n=None, t=None, gs=None):
    import importlib
    name = ["DenseBreedingValueMatrix", "DenseEstimatedBreedingValueMatrix", "DenseGenomicEstimatedBreedingValueMatrix"][int(g.integers(0, 3))]
    cls = _ucls(gs, getattr(importlib.import_module("pybrops.popgen.bvmat." + name), name))
    n = n or int(g.integers(2, 8)); t = t or int(g.integers(1, 4))
    kw = dict(taxa=_labels(g, n, "t"))
    grouped = g.random() < 0.5
    if grouped or g.random() < 0.5:
        kw["taxa_grp"] = g.integers(0, 3, n).astype("int64")
    trait = _labels(g, t, "y") if g.random() < 0.8 else None
    raw = g.normal(size=(n, t)) * g.uniform(0.5, 20, t) + g.uniform(-50, 50, t)
    if g.random() < 0.5:
        obj = cls.from_numpy(raw, trait=trait, **kw)
    else:
        obj = cls(mat=raw, location=g.uniform(-5, 5, t), scale=g.uniform(0.5, 3, t), trait=trait, **kw)
    if grouped:
        obj.group_taxa()
    return obj


def lib_gmod(g, p=None, t=None, name=None, gs=None):
    import importlib
    name = name or ["DenseAdditiveLinearGenomicModel", "DenseAdditiveDominanceLinearGenomicModel", "DenseAdditiveDominanceLinearGenomicModel",
                    "rrBLUPModel0"][int(g.integers(0, 4))]
    cls = _ucls(gs, getattr(importlib.import_module("pybrops.model.gmod." + name), name))
    p = p or int(g.integers(1, 9)); t = t or int(g.integers(1, 4)); q = int([1, 1, 2][int(g.integers(0, 3))])
    kw = dict(beta=g.normal(size=(q, t)), u_misc=g.normal(size=(int(g.integers(1, 3)), t)) if g.random() < 0.4 else None,
              u_a=g.normal(size=(p, t)), trait=_labels(g, t, "y") if g.random() < 0.8 else None,
              model_name="model-%d" % int(g.integers(100)) if g.random() < 0.7 else None)
    if g.random() < 0.7:
        hp = {}
        for i in range(int(g.integers(1, 4))):
            hp["hp%d" % i] = [int(g.integers(-5, 100)), float(g.normal()), g.normal(size=int(g.integers(1, 4))), "REML"][int(g.integers(0, 4))]
        kw["hyperparams"] = hp
    if name == "DenseAdditiveDominanceLinearGenomicModel":
        kw["u_d"] = g.normal(size=(p, t))          # non-zero dominance effects
    if name == "rrBLUPModel0":
        kw["method"] = "ML"
    return cls(**kw)


def lib_gmap(g, gs=None):
    from pybrops.popgen.gmap.ExtendedGeneticMap import ExtendedGeneticMap
    from pybrops.popgen.gmap.StandardGeneticMap import StandardGeneticMap
    ExtendedGeneticMap, StandardGeneticMap = _ucls(gs, ExtendedGeneticMap), _ucls(gs, StandardGeneticMap)
    chrs, pos, gen = [], [], []
    for c in range(int(g.integers(1, 4))):
        k = int(g.integers(2, 6))
        chrs += [c + 1] * k
        pos += list(numpy.sort(g.choice(numpy.arange(1, 400), k, replace=False)) * 5)
        gen += list(numpy.cumsum(g.uniform(0.001, 0.4, k)))
    m = len(chrs)
    perm = g.permutation(m) if g.random() < 0.5 else numpy.arange(m)
    chrs = numpy.array(chrs, dtype="int64")[perm]; pos = numpy.array(pos, dtype="int64")[perm]; gen = numpy.array(gen, dtype=float)[perm]
    kw = dict(auto_group=bool(g.random() < 0.75), auto_build_spline=bool(g.random() < 0.75))
    if g.random() < 0.5:
        return StandardGeneticMap(chrs, pos, gen, **kw)
    return ExtendedGeneticMap(chrs, pos, (pos + g.integers(0, 4, m)).astype("int64"), gen, vrnt_name=_labels(g, m, "m"), **kw)


def lib_cmat(g, n=None, gs=None):
    import importlib
    name = ["DenseMolecularCoancestryMatrix", "DenseVanRadenCoancestryMatrix", "DenseYangCoancestryMatrix"][int(g.integers(0, 3))]
    cls = _ucls(gs, getattr(importlib.import_module("pybrops.popgen.cmat." + name), name))
    n = n or int(g.integers(2, 7))
    a = g.normal(size=(n, n + 2))
    obj = cls(mat=a @ a.T / (n + 2), taxa=_labels(g, n, "t"), taxa_grp=g.integers(0, 3, n).astype("int64"))
    if g.random() < 0.5:
        obj.group_taxa()
    return obj


def lib_frame(g, n=None, t=None):
    import pandas
    n = n or int(g.integers(2, 8)); t = t or int(g.integers(1, 4))
    d = {"taxa": list(_labels(g, n, "t")), "taxa_grp": g.integers(0, 3, n).astype("int64"), "env": ["e%d" % int(x) for x in g.integers(0, 2, n)]}
    for j in range(t):
        col = g.normal(size=n) * 5 + 20
        if g.random() < 0.2:
            col[int(g.integers(n))] = numpy.nan
        d["y%d" % j] = col
    return pandas.DataFrame(d)


def lib_vmat(g, gs=None):
    import importlib
    name, nsq = [("DenseTwoWayDHAdditiveGeneticVarianceMatrix", 2), ("DenseTwoWayDHAdditiveGenicVarianceMatrix", 2),
                 ("DenseThreeWayDHAdditiveGeneticVarianceMatrix", 3), ("DenseThreeWayDHAdditiveGenicVarianceMatrix", 3),
                 ("DenseFourWayDHAdditiveGeneticVarianceMatrix", 4), ("DenseFourWayDHAdditiveGenicVarianceMatrix", 4),
                 ("DenseDihybridDHAdditiveGeneticVarianceMatrix", 2), ("DenseDihybridDHAdditiveGenicVarianceMatrix", 2)][int(g.integers(0, 8))]
    cls = _ucls(gs, getattr(importlib.import_module("pybrops.model.vmat." + name), name))
    n, t = int(g.integers(2, 5 if nsq < 4 else 4)), int(g.integers(1, 3))
    kw = dict(taxa=_labels(g, n, "t"), trait=_labels(g, t, "y"))
    grouped = g.random() < 0.5
    if grouped or g.random() < 0.5:
        kw["taxa_grp"] = g.integers(0, 3, n).astype("int64")
    obj = cls(mat=g.uniform(0, 4, (n,) * nsq + (t,)), **kw)
    if grouped:
        obj.group_taxa()
    return obj


def lib_ptprot(g, gs=None):
    from pybrops.breed.prot.pt.G_E_Phenotyping import G_E_Phenotyping
    from pybrops.breed.prot.pt.TruePhenotyping import TruePhenotyping
    G_E_Phenotyping, TruePhenotyping = _ucls(gs, G_E_Phenotyping), _ucls(gs, TruePhenotyping)
    t = int(g.integers(1, 3))
    gm = lib_gmod(g, t=t, name=["DenseAdditiveLinearGenomicModel", "DenseAdditiveDominanceLinearGenomicModel"][int(g.integers(0, 2))], gs=gs)
    if g.random() < 0.3:
        return TruePhenotyping(gpmod=gm)
    nenv = int(g.integers(1, 4))

    def var():
        r = g.random()
        return None if r < 0.3 else (float(numpy.round(g.uniform(0, 3), 3)) if r < 0.6 else g.uniform(0, 3, t))
    return G_E_Phenotyping(gpmod=gm, nenv=nenv, nrep=int(g.integers(1, 4)) if g.random() < 0.5 else g.integers(1, 4, nenv).astype("int64"),
                           var_env=var(), var_rep=var(), var_err=var(),
                           rng=numpy.random.default_rng(int(g.integers(1 << 30))) if g.random() < 0.5 else None)


def gen_library_state(g, gs=None):
    """Containers as the breeding-programme documentation describes them: genomes (phased), genotypes (unphased), phenotype
    frames, breeding values, genomic models (+ genetic maps, coancestry matrices, lists of matrices).  With ``gs`` (an own
    random stream) about a third of the objects are instances of a user's subclass of their library class."""
    S = [dict() for _ in NAMES]
    n, p, t = int(g.integers(2, 8)), int(g.integers(2, 10)), int(g.integers(1, 4))
    consistent = g.random() < 0.5     # one population described consistently, or unrelated objects per slot
    dims = dict(n=n, p=p) if consistent else {}
    S[0]["cand"] = lib_gmat(g, True, **dims, gs=gs)
    if g.random() < 0.7:
        S[0]["main"] = lib_gmat(g, True, **dims, gs=gs)
    if g.random() < 0.4:
        S[0]["queue"] = [lib_gmat(g, True, gs=gs) for _ in range(int(g.integers(1, 3)))]
    if g.random() < 0.4:
        S[0]["gmap"] = lib_gmap(g, gs=gs)
    S[1]["cand"] = lib_gmat(g, False, **dims, gs=gs)
    if g.random() < 0.7:
        S[1]["main"] = lib_gmat(g, bool(g.random() < 0.3), **dims, gs=gs)
    if g.random() < 0.4:
        S[1]["queue"] = [lib_gmat(g, False, gs=gs) for _ in range(int(g.integers(1, 3)))]
    if g.random() < 0.3:
        S[1]["kinship"] = lib_cmat(g, n if consistent else None, gs=gs)
    S[2]["main"] = lib_frame(g, n if consistent else None, t if consistent else None)
    if g.random() < 0.4:
        S[2]["cand"] = lib_frame(g)
    S[3]["cand"] = lib_bvmat(g, n if consistent else None, t if consistent else None, gs=gs)
    if g.random() < 0.6:
        S[3]["cand_true"] = lib_bvmat(g, n if consistent else None, t if consistent else None, gs=gs)
    if g.random() < 0.6:
        S[3]["main"] = lib_bvmat(g, gs=gs)
    gd = dict(p=p, t=t) if consistent else {}
    S[4]["cand"] = lib_gmod(g, **gd, gs=gs)
    S[4]["true"] = lib_gmod(g, **gd, gs=gs)
    if g.random() < 0.6:
        S[4]["main"] = lib_gmod(g, **gd, gs=gs)
    if g.random() < 0.3:
        S[4]["extra"] = {"models": [lib_gmod(g, gs=gs) for _ in range(int(g.integers(1, 3)))], "gmap": lib_gmap(g, gs=gs)}
    if g.random() < 0.25:
        S[3]["progeny variance"] = lib_vmat(g, gs=gs)
    if g.random() < 0.25:
        S[4]["phenotyping"] = lib_ptprot(g, gs=gs)
    return S


def gen_state(g, cls, gs=None):
    """Five dict containers of input class ``cls`` (live objects; the caller digests them before use); ``gs``: own stream
    deciding which library objects are instances of a user's subclass (None: none)."""
    S = [dict() for _ in NAMES]
    if cls == "empty":
        return S
    if cls == "library":
        return gen_library_state(g, gs)
    if cls == "pybrops":
        S[0]["cand"] = _pgmat(g, gs)
        S[0]["main"] = _pgmat(g, gs)
        S[1]["cand"] = S[0]["cand"].mat.sum(0).astype("int8")
        S[2]["main"] = g.normal(size=(3, 2))
        S[3]["cand"] = _bvmat(g, gs)
        S[4]["true"] = {"beta": g.normal(size=(1, 2)), "u": g.normal(size=(4, 2))}
        return S
    for i, d in enumerate(S):
        nk = int(g.integers(0 if cls != "scalars" else 1, 5))
        for j in range(nk):
            if cls == "mixedkeys":
                key = [j, (j, "k"), None, frozenset([j]), 2.5 + j, "k%d" % j][int(g.integers(0, 6))]
            else:
                key = ["cand", "main", "queue", "true", "k%d" % j][j] if g.random() < 0.6 else "k%d" % j
            if cls == "scalars":
                d[key] = _scalar(g)
            elif cls in ("nested", "mixedkeys", "aliased"):
                d[key] = _nested(g)
            elif cls == "arrays":
                d[key] = _array(g)
            elif cls == "objects":
                d[key] = _object(g)
    if cls == "arrays":  # a view and its base in the same state
        base = g.integers(0, 5, (4, 6))
        S[0]["base"] = base
        S[int(g.integers(0, 5))]["view"] = base[::2, 1:4]
    if cls == "aliased":
        shared = [0, [1, 2], {"s": []}]
        S[0]["shared"] = shared
        S[0]["shared-again"] = shared
        S[int(g.integers(1, 5))]["shared"] = shared            # the same list in two containers
        S[int(g.integers(0, 5))]["self"] = S[int(g.integers(0, 5))]  # a container inside a container (possibly itself)
        loop = [1]
        loop.append(loop)
        S[int(g.integers(0, 5))]["loop"] = loop
        sa = g.integers(0, 4, 5)
        S[1]["arr"] = sa
        S[3]["arr"] = sa
    return S


# ------------------------------------------------------------------ hostile in-place mutation
def _children(o):
    if isinstance(o, dict):
        vals = list(o.values())
    elif isinstance(o, list):
        vals = list(o)
    elif isinstance(o, numpy.ndarray):
        vals = o.ravel().tolist() if o.dtype == object else []
    elif isinstance(o, (set, bytearray)) or (type(o).__module__ or "").startswith("pandas"):
        vals = []
    elif hasattr(o, "__dict__"):
        vals = list(vars(o).values())
    else:
        vals = []
    out = []
    for v in vals:
        if isinstance(v, tuple):
            out.extend(x for x in v if is_mutable(x))
        elif is_mutable(v):
            out.append(v)
    return out


def mutate(g, cont, tag):
    """Apply one in-place mutation at a random depth inside dict ``cont``; returns a short description."""
    tgt = cont
    for _ in range(int(g.integers(0, 4))):
        kids = _children(tgt)
        if not kids:
            break
        tgt = kids[int(g.integers(len(kids)))]
    r = float(g.random())
    if isinstance(tgt, dict):
        keys = list(tgt.keys())
        if keys and r < 0.2:
            del tgt[keys[int(g.integers(len(keys)))]]
            return "del key"
        if keys and r < 0.4:
            tgt[keys[int(g.integers(len(keys)))]] = ["replaced", tag]
            return "replace value"
        if keys and r < 0.45:
            tgt.clear()
            return "clear dict"
        tgt[("mut", tag)] = [tag] if r < 0.8 else numpy.arange(3) + int(g.integers(0, 9))
        return "insert key"
    if isinstance(tgt, list):
        if tgt and r < 0.25:
            tgt.pop(int(g.integers(len(tgt))))
            return "list pop"
        if tgt and r < 0.4:
            tgt[int(g.integers(len(tgt)))] = ("overwritten", tag)
            return "list setitem"
        if tgt and r < 0.45:
            del tgt[:]
            return "list clear"
        tgt.append(("grown", tag))
        return "list append"
    if isinstance(tgt, set):
        tgt.add(("mut", tag))
        return "set add"
    if isinstance(tgt, bytearray):
        tgt.append(int(g.integers(0, 255)))
        return "bytearray append"
    if isinstance(tgt, numpy.ndarray):
        if tgt.size == 0 or not tgt.flags.writeable:
            cont[("mut", tag)] = [tag]
            return "insert key (array not writable/empty)"
        i = int(g.integers(tgt.size))
        idx = numpy.unravel_index(i, tgt.shape)
        if tgt.dtype == object:
            tgt[idx] = ["overwritten", tag]
        elif tgt.dtype.kind in "iu":
            tgt[idx] = tgt[idx] + 1 if r < 0.7 else 0
            if r >= 0.9:
                tgt[...] = 1 - tgt
        elif tgt.dtype.kind == "f":
            tgt[idx] = 7.25 + float(g.random())   # positive: keeps validated fields (e.g. a scale vector) constructible
            if r >= 0.9:
                tgt[...] = tgt + 1.0
        elif tgt.dtype.kind == "b":
            tgt[idx] = not tgt[idx]
        else:
            cont[("mut", tag)] = [tag]
            return "insert key (array dtype)"
        return "array overwrite in place"
    if (type(tgt).__module__ or "").startswith("pandas") and hasattr(tgt, "iat") and getattr(tgt, "ndim", 0) == 2 and tgt.size:
        cols = [j for j in range(tgt.shape[1]) if tgt.dtypes.iloc[j].kind == "f"]
        if cols:
            tgt.iat[int(g.integers(tgt.shape[0])), cols[int(g.integers(len(cols)))]] = 7.25 + float(g.random())
            return "data frame cell overwritten in place"
    # plain harness object: new attribute.  Library objects keep exactly their own fields (their classes copy field by field,
    # an ad-hoc attribute would not survive the class's own __deepcopy__ and that is not the programme's business)
    if isinstance(tgt, Box):
        setattr(tgt, "hx_" + "_".join(str(x) for x in tag), [tag])
        return "object setattr"
    cont[("mut", tag)] = [tag]
    return "insert key (library object left intact)"
