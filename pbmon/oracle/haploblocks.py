"""Reference model for haplotype blocks, OHV, OPV, genotype-builder values (C18).

Written from the property statement:

* a *partition* of m markers (grouped by chromosome, sorted by position) into B blocks is a
  list of half-open index ranges that tile [0, m), none of which crosses a chromosome border;
* the *block value* of chromosome copy (phase p, taxon i) for trait t is the additive value of
  the markers of the block: sum_k G[p,i,k] * u[k,t] over the block's markers;
* OHV(cross)  = ploidy * sum_blocks max_{parent in cross, phase} block value
* OPV(set)    = ploidy * sum_blocks max_{taxon in set, phase}    block value
* GB(set, f)  = ploidy / f * sum_blocks sum of the f largest  max_phase block value over the set
* a doubled haploid that recombines only at block boundaries takes each block from one parental
  copy; its value is ploidy * (mosaic haplotype . u).

Nothing here calls into pybrops.  Floats: numpy float64 sums, compared with |a-b| <= 1e-9*scale + 1e-12.
"""
import itertools

import numpy

RTOL = 1e-9
ATOL = 1e-12


def tol(scale):
    return RTOL * float(scale) + ATOL


def value_scale(u, ploidy=1):
    """Largest magnitude that can enter a genome-wide additive value with 0/1 allele codes."""
    u = numpy.asarray(u, dtype=float)
    return float(ploidy) * float(numpy.abs(u).sum(0).max()) if u.size else 0.0


# ---------------------------------------------------------------- geometry of equal-width bins (input classes only)
def bin_occupancy_class(per, genpos, stix, spix):
    """Coarse class of (apportionment, positions), from plain geometry:
    'an equal-width bin holds no marker'                 - some closed bin [e_j, e_j+1] is empty;
    'an equal-width bin holds only edge markers'         - closed bins all occupied, but some bin has no marker in
                                                           [e_j, e_j+1) (last bin closed), i.e. it owns a marker only
                                                           if shared edges are resolved in its favour;
    'every equal-width bin holds an interior marker'     - otherwise.
    Only used to label findings; never decides a verdict."""
    worst = 0
    for c in range(len(stix)):
        g = numpy.asarray(genpos[stix[c]:spix[c]], dtype=float)
        nh = int(per[c])
        if nh < 1:
            continue
        lo, hi = float(g[0]), float(g[-1])
        edges = numpy.linspace(lo, hi, nh + 1)
        for j in range(nh):
            a, b = edges[j], edges[j + 1]
            closed = bool(numpy.any((g >= a) & (g <= b)))
            if not closed:
                return "an equal-width bin holds no marker"
            half = bool(numpy.any((g >= a) & ((g < b) | (j == nh - 1))))
            if not half:
                worst = 1
    return "an equal-width bin holds only edge markers" if worst else "every equal-width bin holds an interior marker"


def apportion_class(genpos, stix, spix):
    ln = numpy.array([float(genpos[spix[c] - 1]) - float(genpos[stix[c]]) for c in range(len(stix))])
    if not ln.sum() > 0:
        return "zero total genetic length"
    if numpy.any(ln == 0):
        return "a chromosome of zero genetic length"
    return "positive genetic lengths"


# ---------------------------------------------------------------- partition monitors
def check_apportion(ctx, nblk, per, stix, spix, icls, coords, witness, site="nhaploblk_chrom"):
    """C18.partition.apportion.  Returns True when the apportionment is usable (1 <= per[c] <= markers[c], sum == nblk)."""
    C = "C18.partition.apportion"
    nchr = len(stix)
    per = numpy.asarray(per)
    w = dict(witness, per_chromosome=per)
    ok = ctx.check(C, per.shape == (nchr,) and numpy.issubdtype(per.dtype, numpy.integer), site,
                   "one integer count per chromosome", icls, witness=w, coords=coords)
    if not ok:
        return False
    lens = numpy.asarray(spix) - numpy.asarray(stix)
    ok1 = ctx.check(C, bool(numpy.all(per >= 1)), site, "every chromosome gets at least one block", icls, witness=w, coords=coords)
    ok2 = ctx.check(C, int(per.sum()) == int(nblk), site, "per-chromosome counts sum to the requested total", icls, witness=w, coords=coords)
    ok3 = ctx.check(C, bool(numpy.all(per <= lens)), site, "no chromosome gets more blocks than it has markers", icls,
                    what="nhaploblk_chrom gives a chromosome more blocks than it has markers although the requested total "
                         "is within [#chromosomes, #markers] (downstream: RuntimeError/ValueError instead of a result)",
                    witness=dict(w, markers_per_chromosome=lens), coords=coords)
    return ok1 and ok2 and ok3


def check_labels(ctx, total, labels, stix, spix, icls, coords, witness, site="haplobin"):
    """C18.partition.labels / .chrom / .count on the label vector returned by haplobin.
    Returns the list of (st, sp) runs when the labels describe a valid partition with ``total`` blocks, else None."""
    m = int(spix[-1])
    lab = numpy.asarray(labels)
    w = dict(witness, labels=lab)
    ok = ctx.check("C18.partition.labels", lab.shape == (m,) and numpy.issubdtype(lab.dtype, numpy.integer), site,
                   "one integer block label per marker", icls, witness=w, coords=coords)
    if not ok:
        return None
    lab = lab.astype(object)  # python ints: no wrap-around on garbage labels
    mono = all(lab[i] <= lab[i + 1] for i in range(m - 1))
    ok_m = ctx.check("C18.partition.labels", mono, site, "block labels non-decreasing along the markers (each block one contiguous run)",
                     icls, witness=w, coords=coords)
    span = [int(s) for s in list(stix)[1:] if lab[int(s)] == lab[int(s) - 1]]
    ok_c = ctx.check("C18.partition.chrom", not span, site, "no block spans two chromosomes", icls, witness=dict(w, border=span), coords=coords)
    nd = len(set(lab.tolist()))
    ok_n = ctx.check("C18.partition.count", nd == int(total), site, "number of distinct blocks == requested total", icls,
                     what="haplobin forms %s blocks than requested (%s); haplomat/_calc_haplomat then leave the trailing block "
                          "slots uninitialised, so block sums, OHV, OPV and GB values are garbage or non-finite" % ("fewer" if nd < int(total) else "more", icls),
                     witness=dict(w, distinct_blocks=nd, requested=int(total)), coords=coords)
    if not (ok_m and ok_c and ok_n):
        return None
    cuts = [0] + [i for i in range(1, m) if lab[i] != lab[i - 1]] + [m]
    return list(zip(cuts[:-1], cuts[1:]))


def check_bounds(ctx, labels, bounds, icls, coords, witness, site="haplobin_bounds"):
    """C18.partition.bounds: (hstix, hspix, hlen) are exactly the maximal runs of equal labels, tiling [0, m).
    Returns the runs as reported (list of (st, sp)) when well-formed, else None."""
    C = "C18.partition.bounds"
    lab = numpy.asarray(labels)
    m = len(lab)
    w = dict(witness, labels=lab, bounds=bounds)
    try:
        st, sp, ln = (numpy.asarray(b) for b in bounds)
        shape_ok = st.ndim == sp.ndim == ln.ndim == 1 and len(st) == len(sp) == len(ln) >= 1 and \
            all(numpy.issubdtype(a.dtype, numpy.integer) for a in (st, sp, ln))
    except Exception:
        shape_ok = False
    if not ctx.check(C, shape_ok, site, "three equally long integer vectors", icls, witness=w, coords=coords):
        return None
    st, sp, ln = st.tolist(), sp.tolist(), ln.tolist()
    tile = st[0] == 0 and sp[-1] == m and all(st[k + 1] == sp[k] for k in range(len(st) - 1)) and \
        all(ln[k] == sp[k] - st[k] and ln[k] >= 1 for k in range(len(st)))
    ok_t = ctx.check(C, tile, site, "blocks tile the markers: every marker in exactly one non-empty block", icls, witness=w, coords=coords)
    if not ok_t:
        return None
    lab = lab.tolist()
    runs = all(len(set(lab[a:b])) == 1 for a, b in zip(st, sp)) and all(lab[sp[k] - 1] != lab[sp[k]] for k in range(len(st) - 1))
    ok_r = ctx.check(C, runs, site, "each block is a maximal run of one label", icls, witness=w, coords=coords)
    return list(zip(st, sp)) if ok_r else None


# ---------------------------------------------------------------- values from raw genotypes
def block_values(G, u, blocks):
    """V[p, i, j, t] = sum over markers k of block j of G[p,i,k]*u[k,t]  (marker-by-marker accumulation)."""
    G = numpy.asarray(G, dtype=float)
    u = numpy.asarray(u, dtype=float)
    V = numpy.zeros((G.shape[0], G.shape[1], len(blocks), u.shape[1]))
    for j, (a, b) in enumerate(blocks):
        for k in range(a, b):
            V[:, :, j, :] += G[:, :, k, None] * u[None, None, k, :]
    return V


def copy_totals(G, u):
    """T[p, i, t] = additive value of chromosome copy (p, i): whole-genome sum, marker by marker."""
    G = numpy.asarray(G, dtype=float)
    u = numpy.asarray(u, dtype=float)
    T = numpy.zeros((G.shape[0], G.shape[1], u.shape[1]))
    for k in range(G.shape[2]):
        T += G[:, :, k, None] * u[None, None, k, :]
    return T


def best_sum(V, taxa, ploidy):
    """ploidy * sum_blocks max over (phase, taxon in taxa) of V  -> (t,)"""
    sub = V[:, list(taxa), :, :]                       # (p, k, b, t)
    best = sub.reshape(-1, sub.shape[2], sub.shape[3]).max(0)   # (b, t)
    return float(ploidy) * best.sum(0)


def gb_value(V, taxa, nbest, ploidy):
    """ploidy / nbest * sum_blocks (sum of the nbest largest per-taxon best-phase block values) -> (t,)"""
    sub = V[:, list(taxa), :, :].max(0)                # (k, b, t) best phase per taxon
    srt = numpy.sort(sub, axis=0)[::-1]                # descending over taxa
    return float(ploidy) / float(nbest) * srt[:nbest].sum(0).sum(0)


def match_slots(H, V, eps):
    """True when the slots of H (p,n,b,t) are the block values V (p,n,b,t) in order, or in any other one-to-one order."""
    if H.shape != V.shape:
        return False, float("inf")
    d = numpy.abs(H - V)
    if numpy.all(d <= eps):
        return True, float(d.max()) if d.size else 0.0
    nb = V.shape[2]
    free = list(range(nb))
    worst = 0.0
    for j in range(nb):
        hit = None
        for s in free:
            dd = numpy.abs(H[:, :, s, :] - V[:, :, j, :])
            if numpy.all(dd <= eps):
                hit = s; worst = max(worst, float(dd.max()) if dd.size else 0.0)
                break
        if hit is None:
            return False, float(numpy.nanmax(d)) if numpy.any(numpy.isfinite(d)) else float("inf")
        free.remove(hit)
    return True, worst


def dh_values(G, u, blocks, taxa, ploidy, limit=5000):
    """Values (ncomb, t) of every doubled haploid that takes each block from one chromosome copy of ``taxa``.
    Built from assembled mosaic haplotypes (whole-genome dot product), not from block sums.  None when too many."""
    G = numpy.asarray(G)
    u = numpy.asarray(u, dtype=float)
    taxa = sorted(set(int(x) for x in taxa))
    copies = numpy.array([G[p, i, :] for i in taxa for p in range(G.shape[0])], dtype=float)   # (c, m)
    nb = len(blocks)
    nc = copies.shape[0]
    if nc ** nb > limit:
        return None
    m = G.shape[2]
    blockof = numpy.empty(m, dtype=int)
    for j, (a, b) in enumerate(blocks):
        blockof[a:b] = j
    A = numpy.array(list(itertools.product(range(nc), repeat=nb)), dtype=int).reshape(-1, nb)   # (ncomb, nb)
    haps = copies[A[:, blockof], numpy.arange(m)[None, :]]      # (ncomb, m)
    return float(ploidy) * (haps @ u)
