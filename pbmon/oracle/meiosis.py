"""Meiosis hook and monitors shared by C01 (fidelity) and C02 (frequencies).

The hook wraps ``pybrops.breed.prot.mate.util.mat_meiosis`` and
``pybrops.core.util.mate.dense_meiosis`` wherever pybrops binds them and logs
(geno, sel, xoprob, gametes) for every call.
"""
import numpy

from pbmon import hooks


class MeiosisLog:
    def __init__(self):
        self.events = []
        self._undo = []

    def install(self):
        import pybrops.breed.prot.mate.util as U
        import pybrops.core.util.mate as M
        for mod, name in ((U, "mat_meiosis"), (M, "dense_meiosis")):
            orig = getattr(mod, name)
            if getattr(orig, "__wrapped_orig__", None) is not None:
                continue

            def make(orig_, name_):
                import functools

                @functools.wraps(orig_)
                def w(geno, sel, xoprob, rng, *a, **k):
                    # snapshot the inputs at call entry: a protocol that re-uses the parental buffer for its output would
                    # otherwise make the log show the *overwritten* parents
                    g0 = numpy.array(geno, copy=True)
                    r = orig_(geno, sel, xoprob, rng, *a, **k)
                    hooks.COUNTS[name_] += 1
                    self.events.append((g0, numpy.array(sel, copy=True), numpy.array(xoprob, copy=True), numpy.array(r, copy=True)))
                    return r
                w.__wrapped_orig__ = orig_
                return w
            self._undo += hooks.rebind(orig, make(orig, name))
        return self

    def clear(self):
        self.events = []

    def uninstall(self):
        hooks.unbind(self._undo); self._undo = []


def mosaic_rows(P0, P1, G, xo):
    """Vectorised two-state DP: row i of G is a left-to-right mosaic of P0[i], P1[i] whose source may
    change between loci j-1 and j only if xo[j] > 0 (j >= 1); the starting copy is unconstrained."""
    f0 = G[:, 0] == P0[:, 0]
    f1 = G[:, 0] == P1[:, 0]
    for j in range(1, G.shape[1]):
        can = bool(xo[j] > 0)
        e0 = G[:, j] == P0[:, j]
        e1 = G[:, j] == P1[:, j]
        if can:
            any_ = f0 | f1
            f0, f1 = e0 & any_, e1 & any_
        else:
            f0, f1 = e0 & f0, e1 & f1
    return f0 | f1


def informative_sources(P0, P1, G):
    """inf[i,j]: parent copies differ at locus j; src[i,j]: 1 when the gamete carries copy 1's allele."""
    inf = P0 != P1
    src = (G == P1)
    return inf, src


def chain(events, founder):
    """For each event, the set of possible *gamete depths* (number of meioses between a founder and this
    gamete) given every way its ``geno`` argument can be explained: as the founder matrix (individual
    depth 0) or as a stack of two earlier logged gamete matrices.  Empty set: the alleles fed to this
    meiosis were not produced by logged meioses of founders (unexplained input)."""
    depths = []
    for e, (geno, sel, xo, out) in enumerate(events):
        ind = set()
        if geno.shape == founder.shape and numpy.array_equal(geno, founder):
            ind.add(0)
        if geno.ndim == 3 and geno.shape[0] == 2:
            m0 = [a for a in range(e) if depths[a] and events[a][3].shape == geno[0].shape and numpy.array_equal(events[a][3], geno[0])]
            m1 = [a for a in range(e) if depths[a] and events[a][3].shape == geno[1].shape and numpy.array_equal(events[a][3], geno[1])]
            for a in m0:
                for b in m1:
                    for da in depths[a]:
                        for db in depths[b]:
                            ind.add(max(da, db))
        depths.append({d + 1 for d in ind})
    return depths


def matching_events(events, layer):
    return [a for a, ev in enumerate(events) if ev[3].shape == layer.shape and numpy.array_equal(ev[3], layer)]


# ---------------------------------------------------------------- pedigree matching against the event log
def F(j):
    return ("F", int(j))


def I(a, b):
    """Individual whose chromosome copy 0 is a gamete of individual ``a`` and copy 1 a gamete of ``b``."""
    return ("I", a, b)


def S(x, d):
    """``x`` selfed ``d`` times."""
    for _ in range(d):
        x = ("I", x, x)
    return x


class Pedigree:
    """Existential matcher: can this chromosome copy be explained as a logged gamete of an individual that
    (recursively) matches the specification?  Vectors are matched by content, so identical haplotypes can
    only make the monitor more lenient, never raise a false alarm."""

    def __init__(self, events, founder):
        self.founder = founder
        self.rows = {}
        for (geno, sel, xo, out) in events:
            for i in range(len(sel)):
                s = int(sel[i])
                self.rows.setdefault(out[i].tobytes(), []).append((geno[0, s], geno[1, s]))
        self.memo = {}

    def gamete_of(self, v, x):
        key = (v.tobytes(), x)
        r = self.memo.get(key)
        if r is None:
            r = False
            self.memo[key] = False  # guards against cycles
            for (p0, p1) in self.rows.get(key[0], ()):
                if self.individual(p0, p1, x):
                    r = True
                    break
            self.memo[key] = r
        return r

    def individual(self, p0, p1, x):
        if x[0] == "F":
            return bool(numpy.array_equal(p0, self.founder[0, x[1]]) and numpy.array_equal(p1, self.founder[1, x[1]]))
        return self.gamete_of(p0, x[1]) and self.gamete_of(p1, x[2])
