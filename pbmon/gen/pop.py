"""Seeded generators of populations (phased genotype matrices) used by several checks."""
import numpy

from pbmon import boot  # noqa: F401


def chrom_layout(g, nvrnt, nchr):
    """Sorted chromosome labels with every chromosome non-empty (nchr <= nvrnt)."""
    nchr = max(1, min(nchr, nvrnt))
    cuts = numpy.sort(g.choice(numpy.arange(1, nvrnt), nchr - 1, replace=False)) if nchr > 1 else numpy.array([], dtype=int)
    lab = numpy.zeros(nvrnt, dtype="int64")
    for c in cuts:
        lab[c:] += 1
    return lab + 1


def chrom_starts(chrgrp):
    return numpy.r_[True, chrgrp[1:] != chrgrp[:-1]]


def make_xoprob(g, chrgrp, mode):
    """Crossover-probability vectors: 'zero', 'half', 'mixed' (exact 0 and 0.5 entries), 'random', 'haldane', 'wide' ([0,1] incl. exact 1)."""
    m = len(chrgrp)
    st = chrom_starts(chrgrp)
    if mode == "zero":
        xo = numpy.zeros(m)
    elif mode == "half":
        xo = numpy.full(m, 0.5)
    elif mode == "mixed":
        xo = g.uniform(0, 0.5, m)
        xo[g.random(m) < 0.3] = 0.0
        xo[g.random(m) < 0.15] = 0.5
    elif mode == "haldane":
        d = g.exponential(0.15, m)
        xo = 0.5 * (1 - numpy.exp(-2 * d))
    elif mode == "wide":      # user-supplied probabilities over the whole of [0, 1], incl. obligatory crossovers (exactly 1.0)
        xo = g.uniform(0, 1.0, m)
        xo[g.random(m) < 0.15] = 1.0
        xo[g.random(m) < 0.15] = 0.0
    else:
        xo = g.uniform(0, 0.5, m)
    if mode not in ("zero",):
        xo[st] = 0.5
    elif g.random() < 0.5:
        xo[st] = 0.5
    return xo


def make_pgmat(g, ntaxa, nvrnt, nchr=1, codes="01", xomode="random", optional=True, hap=False, xo=None, grouped=True, interleave=False):
    """DensePhasedGenotypeMatrix, variants grouped by chromosome.

    codes: '01' | 'unique' (phase*ntaxa+taxon, constant along the chromosome copy) | 'int8' (arbitrary incl. negatives)
    """
    from pybrops.popgen.gmat.DensePhasedGenotypeMatrix import DensePhasedGenotypeMatrix
    if codes == "unique":
        assert 2 * ntaxa <= 127
        mat = (numpy.arange(2 * ntaxa).reshape(2, ntaxa, 1) + numpy.zeros((1, 1, nvrnt))).astype("int8")
    elif codes == "int8":
        mat = g.integers(-128, 128, (2, ntaxa, nvrnt)).astype("int8")
    else:
        mat = g.integers(0, 2, (2, ntaxa, nvrnt)).astype("int8")
    chrgrp = chrom_layout(g, nvrnt, nchr)
    if xo is None:
        xo = make_xoprob(g, chrgrp, xomode)
    if interleave and not grouped:  # panel order: chromosomes interleaved, matrix left ungrouped
        chrgrp = chrgrp[g.permutation(nvrnt)]
    kw = {}
    if optional:
        kw["vrnt_name"] = numpy.array(["m%03d" % i for i in range(nvrnt)], dtype=object)
        kw["vrnt_genpos"] = numpy.cumsum(g.uniform(0.001, 0.3, nvrnt))
        if g.random() < 0.5:
            kw["vrnt_mask"] = g.random(nvrnt) < 0.5
        if g.random() < 0.5:
            kw["vrnt_hapgrp"] = numpy.sort(g.integers(0, 4, nvrnt)).astype("int64")
    if hap:
        kw["vrnt_hapalt"] = numpy.array(["A"] * nvrnt, dtype=object)
        kw["vrnt_hapref"] = numpy.array(["T"] * nvrnt, dtype=object)
    pg = DensePhasedGenotypeMatrix(
        mat, taxa=numpy.array(["t%03d" % i for i in range(ntaxa)], dtype=object),
        taxa_grp=g.integers(0, 3, ntaxa).astype("int64"),
        vrnt_chrgrp=chrgrp, vrnt_phypos=(numpy.arange(1, nvrnt + 1, dtype="int64") * 10),
        vrnt_xoprob=xo, **kw)
    if grouped:
        pg.group_vrnt()
    return pg


VRNT_FIELDS = ["vrnt_chrgrp", "vrnt_phypos", "vrnt_name", "vrnt_genpos", "vrnt_xoprob", "vrnt_hapgrp", "vrnt_hapalt",
               "vrnt_hapref", "vrnt_mask", "vrnt_chrgrp_name", "vrnt_chrgrp_stix", "vrnt_chrgrp_spix", "vrnt_chrgrp_len"]
TAXA_FIELDS = ["taxa", "taxa_grp", "taxa_grp_name", "taxa_grp_stix", "taxa_grp_spix", "taxa_grp_len"]


def snapshot(obj, fields):
    out = {}
    for f in fields:
        v = getattr(obj, f, None)
        out[f] = None if v is None else numpy.array(v, copy=True)
    return out


def same(a, b):
    if a is None or b is None:
        return a is None and b is None
    a = numpy.asarray(a); b = numpy.asarray(b)
    if a.shape != b.shape:
        return False
    if a.dtype == object or b.dtype == object:
        return a.tolist() == b.tolist()
    return bool(numpy.array_equal(a, b, equal_nan=(a.dtype.kind == "f" and b.dtype.kind == "f")))
