"""Adversarial entropy.

1. ``crafted_generator(kind)`` - a *genuine* numpy.random.Generator(PCG64) whose
   internal state is chosen so that the next double it produces is exactly 0.0
   ("zero") or the largest double below 1 ("max").  Such states exist for every
   PCG64 stream; a property quantified over "all generator states" covers them,
   although no seed search would ever hit one (probability 2**-53 per draw).
2. ``ConstUniform`` - Generator subclass whose uniform() returns a constant
   (used where a whole vector of draws has to sit on a boundary).
"""
import numpy

_MULT = 0x2360ED051FC65DA44385DF649FCCF645  # PCG64 default 128-bit multiplier (numpy)
_M = 1 << 128
_MULT_INV = pow(_MULT, -1, _M)


def crafted_generator(kind, seed=0):
    bg = numpy.random.PCG64(seed)
    st = bg.state
    inc = st["state"]["inc"]
    half = (seed * 0x9E3779B97F4A7C15 + 12345) & ((1 << 64) - 1)
    if kind == "zero":      # high == low  -> xor = 0 -> output 0 -> double 0.0
        target = (half << 64) | half
    elif kind == "max":     # low = ~high -> xor = all ones -> output 2**64-1 -> double 1-2**-53
        target = (half << 64) | (~half & ((1 << 64) - 1))
    else:
        raise ValueError(kind)
    pre = ((target - inc) * _MULT_INV) % _M
    st["state"]["state"] = pre
    bg.state = st
    gen = numpy.random.Generator(bg)
    # self-check on a clone
    bg2 = numpy.random.PCG64(seed); bg2.state = st
    v = numpy.random.Generator(bg2).random()
    want = 0.0 if kind == "zero" else 1.0 - 2.0 ** -53
    if v != want:
        raise RuntimeError("crafted PCG64 state gives %r, wanted %r" % (v, want))
    return gen


class ConstUniform(numpy.random.Generator):
    """Generator whose uniform() returns a chosen point of [low, high)."""

    def __init__(self, seed, frac):
        super().__init__(numpy.random.PCG64(seed))
        self.frac = frac
        self.ncalls = 0

    def uniform(self, low=0.0, high=1.0, size=None):
        self.ncalls += 1
        if isinstance(self.frac, str) and self.frac == "max":
            v = numpy.nextafter(numpy.float64(high), numpy.float64(low))
        else:
            v = numpy.float64(low) + self.frac * (numpy.float64(high) - numpy.float64(low))
        return v if size is None else numpy.full(size, v)
