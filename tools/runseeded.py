#!/venv/bin/python
"""tools/runseeded.py [ids...] : run each seeded change against the check of its property (scratch worktree, quick tier),
record the outcome in seeded/<id>/meta.json (detected_by) and print a table.  -j N parallel workers."""
import glob, json, os, re, subprocess, sys, tempfile
from concurrent.futures import ThreadPoolExecutor
args = [a for a in sys.argv[1:] if not a.startswith("-j")]
jobs = int(([a[2:] for a in sys.argv[1:] if a.startswith("-j")] or ["2"])[0])
ids = args or sorted(os.path.basename(os.path.dirname(p)) for p in glob.glob("/verif/seeded/*/meta.json"))
registered = {c["property_id"] for c in json.load(open("/verif/MANIFEST.json"))["checks"]}

def run(sid):
    meta_p = "/verif/seeded/%s/meta.json" % sid
    meta = json.load(open(meta_p))
    prop = meta["property"]
    also = meta.get("also_run", [])
    out = {}
    for chk in [prop] + also:
        if chk not in registered and not os.path.exists("/verif/pbmon/props/%s.py" % chk.lower()):
            out[chk] = "no check yet"; continue
        wt = tempfile.mkdtemp(prefix="seed-", dir="/tmp"); os.rmdir(wt)
        subprocess.run(["/verif/tools/mkwt.sh", wt], stdout=subprocess.DEVNULL)
        ap = subprocess.run(["git", "-C", wt, "apply", "/verif/seeded/%s/patch.diff" % sid], capture_output=True, text=True)
        if ap.returncode != 0:
            out[chk] = "PATCH DOES NOT APPLY"
        else:
            env = dict(os.environ, PBMON_REPO=wt, PBMON_OUT=wt + ".out")
            r = subprocess.run(["./check", chk, "quick"], cwd="/verif", env=env, capture_output=True, text=True)
            keys = sorted({re.sub(r"^  key=(\S+?)\|.*", r"\1", l) for l in r.stdout.splitlines() if l.startswith("  key=")})
            out[chk] = {0: "MISSED", 1: "caught: " + ",".join(keys), 2: "INCONCLUSIVE"}.get(r.returncode, "rc=%d" % r.returncode)
        subprocess.run(["/verif/tools/rmwt.sh", wt]); subprocess.run(["rm", "-rf", wt + ".out"])
    meta["detected_by"] = out
    json.dump(meta, open(meta_p, "w"), indent=1)
    print("%-8s %s" % (sid, out), flush=True)
    return sid, out

with ThreadPoolExecutor(jobs) as ex:
    list(ex.map(run, ids))
