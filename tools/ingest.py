#!/venv/bin/python
"""tools/ingest.py <wavedir> <Cxx> [...]: confirm the two changes delivered under <wavedir>/<Cxx>/out/{m1,m2}, store them as the next
free seeded ids, remove the agent's worktree and run them against the checks."""
import glob, os, re, subprocess, sys
wave = sys.argv[1]
ids = []
for prop in sys.argv[2:]:
    used = [int(re.search(r"-m(\d+)$", d).group(1)) for d in glob.glob("/verif/seeded/%s-m*" % prop)]
    nxt = max(used + [0]) + 1
    for m in ("m1", "m2"):
        src = "%s/%s/out/%s" % (wave, prop, m)
        if not os.path.exists(src + "/patch.diff"):
            print(prop, m, "not delivered"); continue
        sid = "%s-m%d" % (prop, nxt); nxt += 1
        r = subprocess.run(["/verif/tools/confirm_mut.py", prop, src, sid], capture_output=True, text=True)
        print(r.stdout.strip().splitlines()[0] if r.stdout.strip() else r.stderr[-300:])
        if "CONFIRMED" in r.stdout:
            ids.append(sid)
    subprocess.run(["/verif/tools/rmwt.sh", "%s/%s/wt" % (wave, prop)])
if ids:
    subprocess.run(["/verif/tools/runseeded.py", "-j3"] + ids)
