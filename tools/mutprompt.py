#!/venv/bin/python
"""print the sub-agent prompt for a property id (only the property text + scratch worktree path)."""
import json, sys
pid = sys.argv[1]; wt = sys.argv[2]
p = [json.loads(l) for l in open("/verif/properties.jsonl") if json.loads(l)["id"] == pid][0]
print(f"""You are helping test a verification effort for the open-source Python library PyBrOpS (rzshrote/pybrops: simulation of plant breeding programs and optimisation of selection; numpy/pymoo based). You are given ONE semantic property of the library and your own scratch git worktree of the repository at {wt} (work ONLY there; never touch /repo or /verif, never read anything under /verif).

PROPERTY {pid}: {p['title']}
Statement: {p['statement']}
Quantified over: {p['quantifier']['text']}

TASK: produce TWO different, independent, realistic code changes (m1 and m2) to the library source under {wt}/pybrops, each of which BREAKS this property while (a) the package still imports and (b) the existing test suite still passes exactly as before. Think of the kind of bug a maintainer could plausibly introduce in a refactor or an "optimisation". Prefer changes that need something specific to manifest -- a particular multi-step sequence of operations, an unusual-but-valid input (boundary sizes, repeated parents, exact 0/0.5 probabilities, grouped vs ungrouped matrices, absent optional labels, several traits, particular array shapes), a particular generator state, or two cooperating sites that each look fine alone -- NOT changes that any ordinary use would expose at once (no "always raise", no globally wrong results on the simplest call). m1 and m2 should touch different mechanisms/files where possible.

ENVIRONMENT FACTS:
- Python is /venv/bin/python (3.12, numpy 2.5, scipy, pandas, h5py, pymoo 0.6.2, cyvcf2). No network.
- `import pybrops` fails under this numpy unless you first run: `import numpy; numpy.float_ = numpy.float64; numpy.in1d = numpy.isin`. Put these lines at the top of every demonstration script, then `import sys; sys.path.insert(0, "{wt}")` (or take the root from sys.argv[1]) before importing pybrops so the worktree's code is what runs.
- The existing test suite: `cd {wt} && /venv/bin/python -m pytest -ra -q -p no:cacheprovider --timeout=900 --continue-on-collection-errors` . On the unchanged tree it reports exactly `1 failed, 92 passed, 305 errors` (the errors are pre-existing collection errors). With your change it must report the same 92 passed and no new failures among those 92.
- Keep everything you create under /tmp/mut/{pid}/ (the worktree is {wt}).

FOR EACH of m1, m2 deliver, in /tmp/mut/{pid}/out/m1/ and /tmp/mut/{pid}/out/m2/:
1. patch.diff  -- `git -C {wt} diff` of ONLY that change (make m1, save the diff, `git -C {wt} checkout -- .`, then make m2). It must apply with `git apply` on a clean checkout.
2. demo.py -- a small self-contained program taking the repository root as sys.argv[1] (default {wt}) that exits 0 when the property holds for its scenario and exits 1 (printing what went wrong) when it is violated. It must FAIL (exit 1) with your patch applied and PASS (exit 0) on the clean tree. Verify both yourself. The demo must check the property as stated (observable behaviour), not implementation details.
3. meta.json -- {{"property": "{pid}", "summary": "...one sentence what was changed...", "needs": "...what specific input/sequence/state is needed for it to manifest...", "files": [...], "ran": ["commands you ran and their outcome: tests with patch, demo with patch, demo without patch"]}}

Finish by restoring the worktree to clean state (`git -C {wt} checkout -- .`) and reply with a short summary of the two changes and confirmation of what you verified. If after real effort you can only produce one valid change, deliver one and say so.""")
