#!/venv/bin/python
"""Regenerate SEEDED.md (independent seeded changes and which checks catch them) and SELFTEST.md (my own deliberate breaks)."""
import glob, json, os
out = ["# Independently seeded changes (sub-agents given only the property text) and which checks catch them", "",
       "Each change lives in `seeded/<id>/` (patch.diff, demo.py, meta.json); confirmed by `tools/confirm_mut.py` (demo passes on the clean tree,",
       "fails with the patch; 92 baseline tests still pass) and run against the checks by `tools/runseeded.py` (scratch worktree, quick tier).", "",
       "| id | property | what was changed | needs to manifest | outcome (quick tier) |", "|---|---|---|---|---|"]
for p in sorted(glob.glob("/verif/seeded/*/meta.json")):
    m = json.load(open(p)); sid = os.path.basename(os.path.dirname(p))
    det = m.get("detected_by") or {}
    d = "; ".join("%s: %s" % (k, v) for k, v in det.items()) if isinstance(det, dict) else str(det)
    cut = lambda s, n: (str(s).replace("|", "/").replace("\n", " ")[:n] + ("…" if len(str(s)) > n else ""))
    out.append("| %s | %s | %s | %s | %s |" % (sid, m["property"], cut(m.get("breaks"), 230), cut(m.get("needs_to_manifest"), 200), cut(d, 260)))
open("/verif/SEEDED.md", "w").write("\n".join(out) + "\n")
out = ["# Self-validation: deliberate breaks applied by `tools/selftest.py` (quick tier, scratch worktree)", "",
       "Breaks are defined in `selftest/<Cxx>.json`; checks built by sub-agents report their own tables in DESIGN.md section 8.", "",
       "| property | break | outcome | clauses that fired |", "|---|---|---|---|"]
for p in sorted(glob.glob("/verif/selftest/*.result.json")):
    prop = os.path.basename(p).split(".")[0]
    for name, res, keys in json.load(open(p)):
        out.append("| %s | %s | %s | %s |" % (prop, name, res, keys))
open("/verif/SELFTEST.md", "w").write("\n".join(out) + "\n")
print("written")
