#!/bin/bash
# tools/rmwt.sh <dir>: remove a scratch worktree and its build output
git -C /repo worktree remove --force "$1" 2>/dev/null || rm -rf "$1"
git -C /repo worktree prune
