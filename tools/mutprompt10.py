#!/venv/bin/python
"""tools/mutprompt10.py <Cxx> <wavedir>: wave-10 prompt = property text + scratch worktree + one-line list of mechanisms already used
by earlier engineers (their own summaries, nothing about the checks)."""
import glob, json, re, sys
pid, wave = sys.argv[1], sys.argv[2]
wt = "%s/%s/wt" % (wave, pid)
p = [json.loads(l) for l in open("/verif/properties.jsonl") if json.loads(l)["id"] == pid][0]
used = []
for d in sorted(glob.glob("/verif/seeded/%s-m*" % pid), key=lambda s: int(re.search(r"-m(\d+)$", s).group(1))):
    m = json.load(open(d + "/meta.json"))
    used.append("- " + " ".join(str(m.get("breaks")).split())[:230] + " [" + ", ".join(f.split("/")[-1] for f in (m.get("files") or [])[:3]) + "]")
print(f"""You are helping test a verification effort for the open-source Python library PyBrOpS (rzshrote/pybrops: simulation of plant breeding programs and optimisation of selection; numpy/pymoo based). You are given ONE semantic property of the library and your own scratch git worktree of the repository at {wt} (work ONLY there; never touch /repo or /verif, never read anything under /verif).

PROPERTY {pid}: {p['title']}
Statement: {p['statement']}
Quantified over: {p['quantifier']['text']}

TASK: produce TWO different, independent, realistic code changes (m1 and m2) to the library source under {wt}/pybrops, each of which BREAKS this property while (a) the package still imports and (b) the existing test suite still passes exactly as before. Think of the kind of bug a maintainer could plausibly introduce in a refactor, a vectorisation, a "performance optimisation", a numpy-2 migration or a dtype/memory saving. The change must need something SPECIFIC to manifest, NOT something any ordinary use would expose at once (no "always raise", no globally wrong results on the simplest call). This is the tenth round: earlier engineers already used the mechanisms listed at the end - do NOT repeat those or close variants (same site with another constant is a close variant). Look instead for:
  * data-dependent branches: the defect shows only when a value is negative / exactly zero / duplicated / tied / NaN-free vs. with NaN / already sorted / in descending order / a boolean mask instead of indices / an empty selection / a single element / the last element of an axis;
  * numerical edges: accumulation in a narrower dtype, integer overflow above a threshold, float32 intermediates, catastrophic cancellation, `>=` vs `>` at exact ties, rounding where a product should be an integer;
  * argument forms that are valid per the docstrings but rare: tuples/lists/ranges instead of arrays, 0-d arrays, negative indices, keyword-vs-positional, optional arguments given explicitly as their default, read-only arrays, F-ordered or strided views, object-dtype label arrays, subclasses of the expected class;
  * helper functions shared by several classes (a change in a helper that only matters for one of its callers), base-class methods overridden in only some subclasses, properties with setters that cache derived state;
  * two features in combination (e.g. grouped taxa AND several traits AND a non-default option), second and later calls on the same object, objects obtained from copy/deepcopy/select/concat rather than constructed.
Do NOT deliver a change that merely removes input validation or makes the library accept input outside its documented domain (that breaks no property about valid inputs). The demo must use only valid, documented inputs.
m1 and m2 must touch different mechanisms and different files.

ENVIRONMENT FACTS:
- Python is /venv/bin/python (3.12, numpy 2.5, scipy, pandas, h5py, pymoo 0.6.2, cyvcf2). No network.
- `import pybrops` fails under this numpy unless you first run: `import numpy; numpy.float_ = numpy.float64; numpy.in1d = numpy.isin`. Put these lines at the top of every demonstration script, then `import sys; sys.path.insert(0, root)` with `root = sys.argv[1] if len(sys.argv) > 1 else "{wt}"` before importing pybrops so the given tree's code is what runs.
- The existing test suite: `cd {wt} && /venv/bin/python -m pytest -ra -q -p no:cacheprovider --timeout=900 --continue-on-collection-errors` . On the unchanged tree it reports exactly `1 failed, 92 passed, 305 errors` (the errors are pre-existing collection errors; about 1-2 minutes). With your change it must report the same 92 passed and no new failures among those 92.
- Many source files have CRLF or mixed line endings: edit so that only the lines you mean to change differ (check `git -C {wt} diff --stat` is small).
- Never use `git stash` (shared between worktrees). Use `git -C {wt} diff > file; git -C {wt} checkout -- .`.
- Keep everything you create under {wave}/{pid}/ (the worktree is {wt}). Be done within about 30 minutes.

FOR EACH of m1, m2 deliver, in {wave}/{pid}/out/m1/ and {wave}/{pid}/out/m2/:
1. patch.diff  -- `git -C {wt} diff` of ONLY that change (make m1, save the diff, `git -C {wt} checkout -- .`, then make m2). It must apply with `git apply` on a clean checkout.
2. demo.py -- a small self-contained program taking the repository root as sys.argv[1] (default {wt}) that exits 0 when the property holds for its scenario and exits 1 (printing what went wrong) when it is violated. It must FAIL (exit 1) with your patch applied and PASS (exit 0) on the clean tree. Verify both yourself. The demo must check the property as stated (observable behaviour through the public API), not implementation details.
3. meta.json -- {{"property": "{pid}", "summary": "...one sentence what was changed...", "needs": "...what specific input/sequence/state is needed for it to manifest...", "files": [...], "ran": ["commands you ran and their outcome: tests with patch, demo with patch, demo without patch"]}}

Finish by restoring the worktree to clean state (`git -C {wt} checkout -- .`) and reply with a short summary of the two changes and confirmation of what you verified. If after real effort you can only produce one valid change, deliver one and say so.

MECHANISMS ALREADY USED for this property by earlier engineers (do not repeat):
""" + "\n".join(used))
