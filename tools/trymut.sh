#!/bin/bash
# tools/trymut.sh <Cxx> <patch.diff> [tier] : run a check against a scratch worktree with the patch applied
set -e
prop="$1"; patch="$(readlink -f "$2")"; tier="${3:-quick}"
d="$(mktemp -d /tmp/trymut-XXXXXX)"; rmdir "$d"
/verif/tools/mkwt.sh "$d" >/dev/null
git -C "$d" apply "$patch"
set +e
cd /verif && PBMON_REPO="$d" PBMON_OUT="$d.out" ./check "$prop" "$tier" | cut -c1-220 | grep -E "^(VIOLATION|KNOWN|INCONCLUSIVE|HELD|C[0-9]+ )" | head -${TRYMUT_LINES:-8}
rc=${PIPESTATUS[0]}
/verif/tools/rmwt.sh "$d"; rm -rf "$d.out"
echo "exit=$rc"
