#!/venv/bin/python
"""tools/confirm_mut.py <Cxx> <srcdir with patch.diff demo.py meta.json> <seeded-id>
Confirm a seeded change myself in a scratch worktree (demo passes clean, fails patched; 92 baseline tests
still pass with the patch) and, if all of that holds, store it as /verif/seeded/<seeded-id>/."""
import json, os, shutil, subprocess, sys, tempfile
prop, src, sid = sys.argv[1], os.path.abspath(sys.argv[2]), sys.argv[3]
wt = tempfile.mkdtemp(prefix="confirm-", dir="/tmp"); os.rmdir(wt)
subprocess.run(["/verif/tools/mkwt.sh", wt], check=True, stdout=subprocess.DEVNULL)
ran = []
try:
    def demo():
        p = subprocess.run(["/venv/bin/python", os.path.join(src, "demo.py"), wt], capture_output=True, text=True, timeout=1800, cwd=wt)
        return p.returncode, (p.stdout + p.stderr)[-600:]
    rc0, out0 = demo(); ran.append({"cmd": "demo.py <clean worktree>", "exit": rc0})
    ap = subprocess.run(["git", "-C", wt, "apply", os.path.join(src, "patch.diff")], capture_output=True, text=True)
    ran.append({"cmd": "git apply patch.diff", "exit": ap.returncode})
    rc1, out1 = demo(); ran.append({"cmd": "demo.py <patched worktree>", "exit": rc1, "tail": out1[-300:]})
    t = subprocess.run("/venv/bin/python -m pytest -q -p no:cacheprovider --timeout=900 --continue-on-collection-errors 2>&1 | tail -1",
                       shell=True, cwd=wt, capture_output=True, text=True, timeout=3600)
    tl = t.stdout.strip(); ran.append({"cmd": "pytest baseline in patched worktree", "result": tl})
    ok = rc0 == 0 and ap.returncode == 0 and rc1 != 0 and "92 passed" in tl and "1 failed" in tl
    print(sid, "clean-demo", rc0, "patched-demo", rc1, "|", tl, "| CONFIRMED" if ok else "| REJECTED")
    if not ok:
        print(out0[-300:]); print(out1[-300:])
    if ok:
        dst = os.path.join("/verif/seeded", sid); os.makedirs(dst, exist_ok=True)
        shutil.copy(os.path.join(src, "patch.diff"), dst); shutil.copy(os.path.join(src, "demo.py"), dst)
        meta = json.load(open(os.path.join(src, "meta.json")))
        meta = {"property": prop, "breaks": meta.get("summary"), "needs_to_manifest": meta.get("needs"), "files": meta.get("files"),
                "author": "independent sub-agent given only the property text and a scratch worktree",
                "agent_ran": meta.get("ran"), "confirmed_by_lead": ran, "detected_by": None}
        json.dump(meta, open(os.path.join(dst, "meta.json"), "w"), indent=1)
finally:
    subprocess.run(["/verif/tools/rmwt.sh", wt])
