#!/venv/bin/python
"""print the prompt for a check-building sub-agent"""
import json, sys
pid = sys.argv[1]
extra = sys.argv[2] if len(sys.argv) > 2 else ""
p = [json.loads(l) for l in open("/verif/properties.jsonl") if json.loads(l)["id"] == pid][0]
print(f"""You are building one runtime-monitoring check for the Python library PyBrOpS (repository working tree at /repo, read-only for you) inside the verification framework at /verif. Technique is fixed: RUNTIME MONITORING (run the real code under generated hostile workloads; monitors/oracles judge the executions). 

Your property is {pid}: "{p['title']}".
Statement: {p['statement']}
Quantified over: {p['quantifier']['text']}
(The full record incl. code anchors is the line with id {pid} in /verif/properties.jsonl -- read its "anchors".)

DO THIS:
1. Read /verif/AUTHORS_GUIDE.md completely, then /verif/DESIGN.md sections 0, 1, 2 and the "### {pid}" entry of section 3 plus section 6 (already-observed candidate defects). Look at the exemplars pbmon/props/c17.py, pbmon/oracle/sampling.py, pbmon/props/c19.py and at the probes notes/probes/t_*{pid[1:].lower()}*.py (and others as useful).
2. Read the anchored library code in /repo/pybrops that the property is about.
3. Write /verif/pbmon/props/{pid.lower()}.py (and, if large, oracle helpers under /verif/pbmon/oracle/ with a name specific to your property) implementing ALL clauses designed for {pid} in DESIGN.md section 3 (you may refine them; never weaken them silently -- say what you changed and why). Follow the module skeleton, key conventions, policies and budgets of the guide exactly. Every clause must be listed in CLAUSES with a sensible minimum. Input classes must include the hostile classes the design lists.
4. Run `cd /verif && ./check {pid} quick` with VERIF_SEED = 0,1,2,3,4 and `./check {pid} thorough` once. Triage EVERY alarm per the guide: bare-interpreter reproduction, then either (a) genuine defect -> write the proposed minimal fix as /verif/scratch/fixes/{pid}-<slug>.diff (create it with `git diff` in a scratch worktree made by /verif/tools/mkwt.sh under /tmp/build-{pid}/, never edit /repo) and verify that with the fix the alarm disappears (PBMON_REPO=<worktree> PBMON_OUT=/tmp/build-{pid}/out ./check ...) and that the repo's test suite still gives `92 passed` in the worktree (`cd <worktree> && /venv/bin/python -m pytest -q -p no:cacheprovider --timeout=900 --continue-on-collection-errors | tail -1`); or say the repair is not small and it must be a known finding (give the exact finding keys and a one-line description each); or (b) false alarm -> fix your monitor. Do NOT hide alarms by loosening a correct check. The final state must be: on the unchanged /repo the check prints only VIOLATION lines that you have classified as genuine (each with a proposed fix diff or known-finding text); everything else silent; exit code 0 once those are fixed/listed.
5. Self-validate: in a scratch worktree apply, one at a time, at least 5 deliberate small breaks of the property (the "M" list of the design entry plus your own ideas; each must be a plausible bug that does not break `import pybrops`), run the quick tier against it and record which clause caught it; strengthen the check for any break that is missed. Remove scratch worktrees when done (/verif/tools/rmwt.sh).
6. Keep quick tier total wall time within 20-90 s and thorough within ~15 min (16 shards).

CONSTRAINTS: never edit /repo; never edit pbmon/verdict.py, pbmon/run.py, pbmon/boot.py, pbmon/hooks.py, MANIFEST.json, known_findings.json, checks.json, properties.jsonl, DESIGN.md or other properties' modules (if you need a framework change, describe it in your report); do not git commit; keep all scratch under /tmp/build-{pid}/ and remove it at the end. Other agents are working in /verif on other properties at the same time: touch only your own files. The machine is shared (16 cores): do not run more than one thorough tier at a time.
{extra}
FINAL REPORT (concise, it is read by the lead engineer): files written; clause list with evaluation counts of a quick run and wall times (quick, thorough); every alarm on the unchanged tree with classification, finding key(s), bare reproduction snippet and the path of the proposed fix diff (or known-finding text); self-validation table (break -> caught by clause / missed); anything in DESIGN.md's entry for {pid} that you changed or could not build, and why; suggested text for the MANIFEST level_claimed/level_note/technique fields.""")
