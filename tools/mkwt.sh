#!/bin/bash
# tools/mkwt.sh <dir>: light scratch worktree of /repo HEAD (no docs/examples), outside /repo and /verif.
set -e
d="$1"
git -C /repo worktree add --no-checkout --detach "$d" HEAD >/dev/null 2>&1
git -C "$d" sparse-checkout init --no-cone
git -C "$d" sparse-checkout set '/*' '!/docs/' '!/docsrc/' '!/examples/'
git -C "$d" checkout -q
echo "$d"
