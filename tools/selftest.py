#!/venv/bin/python
"""tools/selftest.py <Cxx> [tier] : apply each deliberate break of selftest/<Cxx>.json to a scratch worktree, run the
check against it, report caught/missed (DESIGN section 5).  Breaks: {"name","file","old","new"[, "count"]}."""
import json, os, subprocess, sys, tempfile, re
prop = sys.argv[1]; tier = sys.argv[2] if len(sys.argv) > 2 else "quick"
breaks = json.load(open("/verif/selftest/%s.json" % prop))
only = sys.argv[3:] 
wt = tempfile.mkdtemp(prefix="selftest-", dir="/tmp"); os.rmdir(wt)
subprocess.run(["/verif/tools/mkwt.sh", wt], check=True, stdout=subprocess.DEVNULL)
res = []
try:
    for b in breaks:
        if only and b["name"] not in only:
            continue
        subprocess.run(["git", "-C", wt, "checkout", "-q", "--", "."], check=True)
        p = os.path.join(wt, b["file"])
        s = open(p, newline="").read()
        n = s.count(b["old"])
        if n != b.get("count", 1):
            res.append((b["name"], "BAD-EDIT (old text occurs %d times)" % n, "")); print("%-40s %-12s %s" % res[-1], flush=True); continue
        open(p, "w", newline="").write(s.replace(b["old"], b["new"]))
        env = dict(os.environ, PBMON_REPO=wt, PBMON_OUT=wt + ".out")
        r = subprocess.run(["./check", prop, tier], cwd="/verif", env=env, capture_output=True, text=True)
        keys = sorted({re.sub(r"^  key=(\S+?)\|.*", r"\1", l) for l in r.stdout.splitlines() if l.startswith("  key=")})
        res.append((b["name"], {0: "MISSED", 1: "caught", 2: "INCONCLUSIVE"}.get(r.returncode, "rc=%d" % r.returncode), ",".join(keys)[:200]))
        print("%-40s %-12s %s" % res[-1], flush=True)
finally:
    subprocess.run(["/verif/tools/rmwt.sh", wt]); subprocess.run(["rm", "-rf", wt + ".out"])
json.dump(res, open("/verif/selftest/%s.result.json" % prop, "w"), indent=1)
