from boot import *
import time
from scipy import stats
import pybrops.breed.prot.mate.util as U
from pybrops.breed.prot.mate.TwoWayDHCross import TwoWayDHCross
from pybrops.breed.prot.mate.FourWayCross import FourWayCross
from pybrops.popgen.gmap.HaldaneMapFunction import HaldaneMapFunction
log=[]
orig=U.mat_meiosis
def wrap(geno,sel,xoprob,rng):
    out=orig(geno,sel,xoprob,rng); log.append((geno,numpy.asarray(sel),out)); return out
U.mat_meiosis=wrap
rng=numpy.random.default_rng(0)
m=30; chrgrp=numpy.repeat([1,2,3],10); genpos=numpy.concatenate([numpy.cumsum(rng.uniform(0,0.3,10)) for _ in range(3)])
d=numpy.r_[numpy.inf,numpy.diff(genpos)]; d[[10,20]]=numpy.inf
xo=HaldaneMapFunction().mapfn(numpy.abs(d)); xo[5]=0.0; xo[7]=0.5
mat=numpy.zeros((2,4,m),dtype='int8'); mat[:,1]=1; mat[:,3]=1  # inbred 0 and inbred 1 lines
pg=DensePhasedGenotypeMatrix(mat,vrnt_chrgrp=chrgrp,vrnt_phypos=numpy.arange(m)+1,vrnt_genpos=genpos,vrnt_xoprob=xo); pg.group_vrnt()
t0=time.time()
N=40000
out=TwoWayDHCross(rng=numpy.random.default_rng(1)).mate(pg,numpy.array([[0,1]]),1,N)
out2=FourWayCross(rng=numpy.random.default_rng(2)).mate(pg,numpy.array([[0,1,2,3]]),200,50,nself=1)
print('sim %.1fs events %d'%(time.time()-t0,len(log)))
t0=time.time()
rec=numpy.zeros(m); inf=numpy.zeros(m); tr=numpy.zeros(m); tinf=numpy.zeros(m)
for geno,sel,gam in log:
    a=geno[0][sel]; b=geno[1][sel]
    het=a!=b
    src=numpy.where(gam==a,0,1)  # valid where het
    both=het[:,1:]&het[:,:-1]
    sw=(src[:,1:]!=src[:,:-1])&both
    rec[1:]+=sw.sum(0); inf[1:]+=both.sum(0)
    tr+=((src==1)&het).sum(0); tinf+=het.sum(0)
alpha=1e-9/(2*m)
worst=1
for j in range(1,m):
    if inf[j]==0: continue
    p=stats.binomtest(int(rec[j]),int(inf[j]),min(xo[j],0.5)).pvalue
    worst=min(worst,p)
pw=min(stats.binomtest(int(tr[j]),int(tinf[j]),0.5).pvalue for j in range(m))
print('analysis %.1fs; informative per interval min %d max %d; min p adjacent %.3g; min p segregation %.3g; alpha/test %.2g'%(time.time()-t0,inf[1:].min(),inf[1:].max(),worst,pw,alpha))
print('rec freq vs xo (first 12):',numpy.round(rec[1:13]/inf[1:13],3),numpy.round(xo[1:13],3))
