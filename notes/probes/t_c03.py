from boot import *
import collections, traceback, copy
res=collections.Counter(); wit={}
NT,NV=40,60
def tl(ids): return dict(taxa=numpy.array(['T%03d'%i for i in ids],dtype=object), taxa_grp=numpy.array([ (i*7)%4 for i in ids],dtype='int64'))
def vl(ids):
    ids=numpy.asarray(ids)
    return dict(vrnt_chrgrp=(ids%3+1).astype('int64'), vrnt_phypos=(ids*13%997+1).astype('int64'), vrnt_name=numpy.array(['V%03d'%i for i in ids],dtype=object),
        vrnt_genpos=ids*0.01, vrnt_xoprob=(ids%7)/14.0, vrnt_hapgrp=(ids%5).astype('int64'), vrnt_hapalt=numpy.array(['A%d'%i for i in ids],dtype=object), vrnt_hapref=numpy.array(['R%d'%i for i in ids],dtype=object), vrnt_mask=(ids%2==0))
def cell(ti,vi,ph=0): return ((ti*31+vi*17+ph*5)%2)
def build(cls,tids,vids):
    tids=numpy.asarray(tids); vids=numpy.asarray(vids)
    if cls is DensePhasedGenotypeMatrix:
        mat=numpy.stack([cell(tids[:,None],vids[None,:],p) for p in (0,1)]).astype('int8')
    else:
        mat=(cell(tids[:,None],vids[None,:],0)+cell(tids[:,None],vids[None,:],1)).astype('int8')
    return cls(mat,**tl(tids),**vl(vids))
def check(obj,cls,tids,vids,tag):
    exp=build(cls,tids,vids)
    bad=[]
    if obj.mat.shape!=exp.mat.shape or not numpy.array_equal(obj.mat,exp.mat): bad.append('mat')
    for a in ('taxa','taxa_grp','vrnt_chrgrp','vrnt_phypos','vrnt_name','vrnt_genpos','vrnt_xoprob','vrnt_hapgrp','vrnt_hapalt','vrnt_hapref','vrnt_mask'):
        x=getattr(obj,a); y=getattr(exp,a)
        if x is None or len(x)!=len(y) or not numpy.array_equal(x,y): bad.append(a)
    # groups
    for ax,grp,pre in (('taxa',obj.taxa_grp,'taxa_grp_'),('vrnt',obj.vrnt_chrgrp,'vrnt_chrgrp_')):
        if getattr(obj,'is_grouped_'+ax)():
            nm,st,sp,ln=[getattr(obj,pre+s) for s in ('name','stix','spix','len')]
            ok = len(nm)==len(st)==len(sp)==len(ln) and numpy.array_equal(sp,st+ln) and ln.sum()==len(grp) and numpy.all(ln>0) and numpy.array_equal(nm,numpy.unique(grp)) and all(numpy.all(grp[a:b]==g) for g,a,b in zip(nm,st,sp)) and (len(st)==0 or st[0]==0) and numpy.array_equal(st[1:],sp[:-1])
            if not ok: bad.append('groups_'+ax)
    for b in bad:
        res[(cls.__name__,tag,'BAD '+b)]+=1; wit.setdefault((cls.__name__,tag,b),(list(tids),list(vids)))
    if not bad: res[(cls.__name__,tag,'ok')]+=1
    return not bad
rng=numpy.random.default_rng(0)
def step(cls,obj,tids,vids,nxt):
    tids=list(tids); vids=list(vids)
    axis_name=rng.choice(['taxa','vrnt'])
    ids=tids if axis_name=='taxa' else vids
    ax=obj.taxa_axis if axis_name=='taxa' else obj.vrnt_axis
    op=rng.choice(['select','delete','insert','adjoin','append','remove','incorp','concat','sort','group','reorder','ungroup'])
    generic=bool(rng.integers(0,2))
    n=len(ids)
    def newids(k):
        out=list(range(nxt[axis_name],nxt[axis_name]+k)); nxt[axis_name]+=k; return out
    def other(k):
        new=newids(k)
        return (build(cls,new,vids) if axis_name=='taxa' else build(cls,tids,new)), new
    tag=op+('_generic' if generic else '_'+axis_name)
    try:
        if op=='select':
            ix=rng.integers(0,n,int(rng.integers(1,n+2)))
            o=obj.select(ix,axis=ax) if generic else getattr(obj,'select_'+axis_name)(ix); ids2=[ids[i] for i in ix]
        elif op=='delete':
            if n<2: return obj,tids,vids
            ix=numpy.unique(rng.integers(0,n,int(rng.integers(1,n))))
            o=obj.delete(ix,axis=ax) if generic else getattr(obj,'delete_'+axis_name)(ix); ids2=[e for i,e in enumerate(ids) if i not in set(ix.tolist())]
        elif op in('insert','incorp'):
            k=int(rng.integers(1,3)); oth,new=other(k); pos=int(rng.integers(0,n+1))
            tgt=obj if op=='insert' else copy.deepcopy(obj)
            r=getattr(tgt,op)(pos,oth,axis=ax) if generic else getattr(tgt,op+'_'+axis_name)(pos,oth)
            o=r if op=='insert' else tgt; ids2=ids[:pos]+new+ids[pos:]
        elif op in('adjoin','append'):
            k=int(rng.integers(1,3)); oth,new=other(k)
            tgt=obj if op=='adjoin' else copy.deepcopy(obj)
            r=getattr(tgt,op)(oth,axis=ax) if generic else getattr(tgt,op+'_'+axis_name)(oth)
            o=r if op=='adjoin' else tgt; ids2=ids+new
        elif op=='remove':
            if n<2: return obj,tids,vids
            ix=numpy.unique(rng.integers(0,n,int(rng.integers(1,n))))
            o=copy.deepcopy(obj); (o.remove(ix,axis=ax) if generic else getattr(o,'remove_'+axis_name)(ix)); ids2=[e for i,e in enumerate(ids) if i not in set(ix.tolist())]
        elif op=='concat':
            k=int(rng.integers(1,3)); oth,new=other(k)
            o=cls.concat([obj,oth],axis=ax) if generic else getattr(cls,'concat_'+axis_name)([obj,oth]); ids2=ids+new
        elif op in('sort','group'):
            o=copy.deepcopy(obj)
            (getattr(o,op)(axis=ax) if (generic and op=='group') else (o.sort(None,axis=ax) if generic else getattr(o,op+'_'+axis_name)()))
            if axis_name=='taxa': key=lambda i:((i*7)%4,'T%03d'%i)
            else: key=lambda i:(i%3+1,i*13%997+1)
            ids2=sorted(ids,key=key)
        elif op=='reorder':
            perm=rng.permutation(n); o=copy.deepcopy(obj)
            (o.reorder(perm,axis=ax) if generic else getattr(o,'reorder_'+axis_name)(perm)); ids2=[ids[i] for i in perm]
        elif op=='ungroup':
            o=copy.deepcopy(obj); (o.ungroup(axis=ax) if generic else getattr(o,'ungroup_'+axis_name)()); ids2=ids
    except BaseException as e:
        res[(cls.__name__,tag,'EXC '+type(e).__name__+': '+str(e)[:60])]+=1
        return obj,tids,vids
    if axis_name=='taxa': tids=ids2
    else: vids=ids2
    ok=check(o,cls,tids,vids,tag)
    if not ok: o=build(cls,tids,vids)
    return o,tids,vids
for cls in (DensePhasedGenotypeMatrix,DenseGenotypeMatrix):
    for h in range(150):
        nt=int(rng.integers(1,6)); nv=int(rng.integers(1,7))
        tids=list(rng.choice(NT,nt,replace=False)); vids=list(rng.choice(NV,nv,replace=False)); nxt={'taxa':100,'vrnt':200}
        obj=build(cls,tids,vids)
        for s in range(8):
            obj,tids,vids=step(cls,obj,tids,vids,nxt)
            if len(tids)>12 or len(vids)>12: break
bad={k:v for k,v in res.items() if not k[2]=='ok'}
print('ok total',sum(v for k,v in res.items() if k[2]=='ok'))
for k_,v in sorted(bad.items(),key=str): print(k_,v)
