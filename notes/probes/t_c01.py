from boot import *
import pybrops.breed.prot.mate.util as U
log=[]
orig=U.mat_meiosis
def wrap(geno,sel,xoprob,rng):
    out=orig(geno,sel,xoprob,rng); log.append((geno,numpy.array(sel),xoprob,out)); return out
U.mat_meiosis=wrap
def mosaic_ok(g, a, b, xo):
    # feasible phase set DP
    feas={p for p,h in enumerate((a,b)) if h[0]==g[0]}
    if not feas: return False
    if xo[0]<=0: feas&={0}  # start phase is 0 unless crossover at index 0
    for j in range(1,len(g)):
        nxt=set()
        for p,h in enumerate((a,b)):
            if h[j]!=g[j]: continue
            if p in feas or (xo[j]>0 and (1-p) in feas): nxt.add(p)
        feas=nxt
        if not feas: return False
    return True
from pybrops.breed.prot.mate.SelfCross import SelfCross
from pybrops.breed.prot.mate.TwoWayCross import TwoWayCross
from pybrops.breed.prot.mate.TwoWayDHCross import TwoWayDHCross
from pybrops.breed.prot.mate.ThreeWayCross import ThreeWayCross
from pybrops.breed.prot.mate.ThreeWayDHCross import ThreeWayDHCross
from pybrops.breed.prot.mate.FourWayCross import FourWayCross
from pybrops.breed.prot.mate.FourWayDHCross import FourWayDHCross
rng=numpy.random.default_rng(7)
n,m=6,14
pg=mkpg(rng,ntaxa=n,nvrnt=m)
codes=(numpy.arange(2*n).reshape(2,n,1)+numpy.zeros((1,1,m))).astype('int8')
pg.mat=codes
xo=pg.vrnt_xoprob.copy(); xo[[3,4,9]]=0.0; pg.vrnt_xoprob=xo
for P,k in [(SelfCross,1),(TwoWayCross,2),(TwoWayDHCross,2),(ThreeWayCross,3),(ThreeWayDHCross,3),(FourWayCross,4),(FourWayDHCross,4)]:
    log.clear()
    xc=rng.integers(0,n,(3,k))
    nm=numpy.array([1,2,1]); npg=numpy.array([2,1,3])
    out=P(rng=numpy.random.default_rng(1)).mate(pg,xc,nm,npg,nself=1)
    bad=sum(not mosaic_ok(g, geno[0,s], geno[1,s], xop) for geno,sel,xop,gam in log for g,s in zip(gam,sel))
    last=[e[3] for e in log][-2:]
    ph_ok=[any(numpy.array_equal(out.mat[p],e[3]) for e in log) for p in (0,1)]
    # switch positions only where xo>0
    sw=numpy.flatnonzero((out.mat[:,:,1:]!=out.mat[:,:,:-1]).any((0,1)))+1
    print(P.__name__, 'events',len(log),'gametes',sum(len(e[1]) for e in log),'mosaic_bad',bad,'phases=logged',ph_ok,'nprog',out.ntaxa,'expected',int((nm*npg).sum()),'switch at xo==0:',[int(j) for j in sw if xo[j]==0], 'founders in prog0 phase0/1', sorted(set(out.mat[0,0].tolist())), sorted(set(out.mat[1,0].tolist())), 'xc0',xc[0])
