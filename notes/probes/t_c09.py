from boot import *
import collections, fractions, traceback
from pybrops.model.gmod.DenseAdditiveLinearGenomicModel import DenseAdditiveLinearGenomicModel
from pybrops.model.gmod.DenseAdditiveDominanceLinearGenomicModel import DenseAdditiveDominanceLinearGenomicModel
res=collections.Counter(); wit={}
rng=numpy.random.default_rng(4)
def note(k,ok,w=None):
    res[(k,bool(ok))]+=1
    if not ok and k not in wit: wit[k]=w
for t in range(300):
    n=int(rng.choice([1,2,3,7,12,49,98,103])); m=int(rng.integers(1,12))
    mat=rng.integers(0,2,(2,n,m)).astype('int8')
    for j in range(m):
        r=rng.random()
        if r<0.2: mat[:,:,j]=1
        elif r<0.4: mat[:,:,j]=0
    pg=DensePhasedGenotypeMatrix(mat,taxa=numpy.array(['t%d'%i for i in range(n)],dtype=object),taxa_grp=numpy.zeros(n,dtype='int64'))
    un=DenseGenotypeMatrix(mat.sum(0).astype('int8'),taxa=pg.taxa,taxa_grp=pg.taxa_grp,ploidy=2)
    cnt=mat.sum((0,1)).astype(int); N=2*n
    for nm,g in (('ph',pg),('un',un)):
        try:
            note(nm+' acount', numpy.array_equal(g.acount(),cnt))
            af=g.afreq(); exp=numpy.array([float(fractions.Fraction(int(c),N)) for c in cnt])
            note(nm+' afreq~', numpy.allclose(af,exp,rtol=1e-15,atol=0))
            note(nm+' afreq in[0,1]', numpy.all((af>=0)&(af<=1)))
            note(nm+' afreq==1 iff fixed', numpy.array_equal(af==1.0,cnt==N),(n,))
            note(nm+' afreq==0 iff lost', numpy.array_equal(af==0.0,cnt==0))
            ap=g.apoly(); note(nm+' apoly', numpy.array_equal(ap,(cnt>0)&(cnt<N)),(n,))
            if hasattr(g,'afixed'):
                fx=g.afixed(); note(nm+' afixed==~apoly', numpy.array_equal(fx,~ap)); note(nm+' afixed def', numpy.array_equal(fx,(cnt==0)|(cnt==N)),(n,))
            mf=g.maf(); note(nm+' maf', numpy.allclose(mf,numpy.minimum(exp,1-exp),rtol=1e-14,atol=1e-16))
            note(nm+' meh', numpy.isclose(g.meh(), 2/m*sum(float(fractions.Fraction(int(c),N)*(1-fractions.Fraction(int(c),N))) for c in cnt),rtol=1e-12,atol=1e-15))
            gc=g.gtcount(); d=mat.sum(0)
            expgc=numpy.stack([(d==k).sum(0) for k in range(3)])
            note(nm+' gtcount', gc.shape==expgc.shape and numpy.array_equal(gc,expgc),(n,gc.shape))
            note(nm+' tacount', numpy.array_equal(g.tacount(),d))
            note(nm+' tafreq', numpy.allclose(g.tafreq(),d/2))
            for fmt in ('{0,1,2}','{-1,0,1}'):
                note(nm+' asformat'+fmt, numpy.array_equal(g.mat_asformat(fmt), d-(1 if fmt=='{-1,0,1}' else 0)))
            for dt in ('float32','int32','float64'):
                note(nm+' dtype afreq '+dt, g.afreq(dt).dtype==numpy.dtype(dt))
                note(nm+' dtype acount '+dt, g.acount(dt).dtype==numpy.dtype(dt))
        except Exception as e:
            res[(nm+' EXC '+type(e).__name__+': '+str(e)[:60],False)]+=1
    # model stats
    u=rng.normal(size=(m,2)); u[rng.integers(0,m)]=0.0
    mod=DenseAdditiveLinearGenomicModel(beta=numpy.array([[2.0,-1.0]]),u_misc=None,u_a=u,trait=numpy.array(['a','b'],dtype=object))
    try:
        cn=cnt[:,None]
        fc=numpy.where(u>0,cn,N-cn); fc[u==0]=0
        dc=numpy.where(u<0,cn,N-cn); dc[u==0]=0
        for nm,g in (('ph',pg),('un',un)):
            note('facount '+nm, numpy.array_equal(mod.facount(g),fc))
            note('dacount '+nm, numpy.array_equal(mod.dacount(g),dc))
            note('fafixed '+nm, numpy.array_equal(mod.fafixed(g),(fc==N)&(u!=0)) )
            note('fapoly '+nm, numpy.array_equal(mod.fapoly(g),(fc>0)&(fc<N)))
            note('faavail '+nm, numpy.array_equal(mod.faavail(g),fc>0))
            note('nafixed '+nm, numpy.array_equal(mod.nafixed(g),((cn==0)|(cn==N))&(u==0)))
            note('napoly '+nm, numpy.array_equal(mod.napoly(g),((cn>0)&(cn<N))&(u==0)))
            ge=mod.gebv(g); note('gebv '+nm, numpy.allclose(ge.unscale(), mat.sum(0)@u+numpy.array([2.0,-1.0])) and numpy.array_equal(ge.taxa,pg.taxa))
            va=mod.var_A(g); note('var_A '+nm, numpy.allclose(va,(mat.sum(0)@u).var(0)))
            p=cnt/N; note('var_a '+nm, numpy.allclose(mod.var_a(g),4*((u**2)*(p*(1-p))[:,None]).sum(0)))
    except Exception as e:
        res[('model EXC '+type(e).__name__+': '+str(e)[:60],False)]+=1
for k_,v in sorted(res.items(),key=str):
    if not k_[1]: print('FAIL',k_[0],v,wit.get(k_[0]))
print('passing clauses:',sum(1 for k_ in res if k_[1]),'evaluations',sum(res.values()))
