from boot import *
import random, hashlib, collections, traceback, pickle
import pybrops.core.random.prng as prng
from pybrops.breed.prot.mate.TwoWayCross import TwoWayCross
from pybrops.breed.prot.mate.FourWayDHCross import FourWayDHCross
from pybrops.breed.prot.pt.G_E_Phenotyping import G_E_Phenotyping
from pybrops.model.gmod.DenseAdditiveLinearGenomicModel import DenseAdditiveLinearGenomicModel
from pybrops.core.random.sampling import stochastic_universal_sampling as sus, tiled_choice, outcross_shuffle, axis_shuffle
from pybrops.breed.prot.sel.cfg.SubsetSelectionConfiguration import SubsetSelectionConfiguration
from pybrops.breed.prot.sel.cfg.RealSelectionConfiguration import RealSelectionConfiguration
from pybrops.breed.prot.sel.cfg.IntegerSelectionConfiguration import IntegerSelectionConfiguration
from pybrops.breed.prot.sel.cfg.BinarySelectionConfiguration import BinarySelectionConfiguration
from pybrops.opt.algo.SteepestDescentSubsetHillClimber import SteepestDescentSubsetHillClimber
from pybrops.opt.algo.SubsetGeneticAlgorithm import SubsetGeneticAlgorithm
from pybrops.breed.prot.sel.prob.EstimatedBreedingValueSelectionProblem import EstimatedBreedingValueSubsetSelectionProblem as P
g0=numpy.random.default_rng(0)
pg=mkpg(g0,ntaxa=8,nvrnt=12)
u=g0.normal(size=(12,1))
mod=DenseAdditiveLinearGenomicModel(beta=numpy.array([[1.0]]),u_misc=None,u_a=u,trait=numpy.array(['y'],dtype=object))
ebv=g0.normal(size=(8,1))
prob=P(ebv=ebv,ndecn=3,decn_space=numpy.arange(8),decn_space_lower=numpy.repeat(0,3),decn_space_upper=numpy.repeat(7,3),nobj=1,obj_wt=numpy.array([1.0]))
def dig(x):
    if hasattr(x,'mat'): x=(x.mat,getattr(x,'taxa',None))
    if hasattr(x,'to_numpy'): x=x.to_numpy()
    if hasattr(x,'xconfig'): x=x.xconfig
    if hasattr(x,'soln_decn'): x=x.soln_decn
    return hashlib.sha1(pickle.dumps(x)).hexdigest()[:10]
comps={
 'mate2w': lambda rng: TwoWayCross(rng=rng).mate(pg,numpy.array([[0,1],[2,3]]),2,2),
 'mate4wdh': lambda rng: FourWayDHCross(rng=rng).mate(pg,numpy.array([[0,1,2,3]]),2,2,nself=1),
 'pheno': lambda rng: G_E_Phenotyping(mod,2,2,1.0,1.0,1.0,rng=rng).phenotype(pg),
 'sus': lambda rng: sus(numpy.arange(5),numpy.array([.1,.2,.3,.2,.2]),7,rng),
 'tiled': lambda rng: tiled_choice(numpy.arange(5),(3,4),False,None,rng),
 'cfg_subset': lambda rng: SubsetSelectionConfiguration(4,2,1,1,pg,numpy.array([0,1,2,3,4]),rng),
 'cfg_real': lambda rng: RealSelectionConfiguration(4,2,1,1,pg,numpy.array([.1,.2,.3,.2,.1,.05,.05,0.0]),rng),
 'cfg_int': lambda rng: IntegerSelectionConfiguration(4,2,1,1,pg,numpy.array([1,2,0,1,0,0,3,0]),rng),
 'hillclimb': lambda rng: SteepestDescentSubsetHillClimber(rng=rng).minimize(prob),
 'ga': lambda rng: SubsetGeneticAlgorithm(ngen=3,pop_size=8,rng=rng).minimize(prob),
}
print('--- reseed reproducibility (global), different prefixes')
for name,f in comps.items():
    try:
        prng.seed(123); a=dig(f(None))
        random.random(); numpy.random.random(5); f(None)  # prefix junk
        prng.seed(123); b=dig(f(None))
        print(name, 'same' if a==b else 'DIFF')
    except Exception as e: print(name,'EXC',type(e).__name__,str(e)[:100])
print('--- explicit rng isolation')
for name,f in comps.items():
    try:
        prng.seed(1); s0=(random.getstate(),numpy.random.get_state()[1].copy(),numpy.random.get_state()[2])
        a=dig(f(numpy.random.default_rng(77)))
        s1=(random.getstate(),numpy.random.get_state()[1].copy(),numpy.random.get_state()[2])
        untouched = s0[0]==s1[0] and numpy.array_equal(s0[1],s1[1]) and s0[2]==s1[2]
        prng.seed(999); b=dig(f(numpy.random.default_rng(77)))
        print(name,'global untouched' if untouched else 'GLOBAL CONSUMED','| depends only on rng' if a==b else '| DEPENDS ON GLOBAL')
    except Exception as e: print(name,'EXC',type(e).__name__,str(e)[:100])
print('--- spawn')
prng.seed(5); a=[g.random() for g in prng.spawn(3)]; prng.seed(5); b=[g.random() for g in prng.spawn(3)]; print('spawn same',a==b)
