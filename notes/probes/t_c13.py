from boot import *
import collections, traceback, itertools
from pybrops.popgen.cmat.DenseMolecularCoancestryMatrix import DenseMolecularCoancestryMatrix as Mol
from pybrops.popgen.cmat.DenseVanRadenCoancestryMatrix import DenseVanRadenCoancestryMatrix as VR
from pybrops.popgen.cmat.DenseYangCoancestryMatrix import DenseYangCoancestryMatrix as YG
from pybrops.popgen.cmat.DenseGeneralizedWeightedCoancestryMatrix import DenseGeneralizedWeightedCoancestryMatrix as GW
res=collections.Counter()
rng=numpy.random.default_rng(3)
def ibs2(Za,ploidy):
    n,m=Za.shape; out=numpy.zeros((n,n))
    for i in range(n):
        for j in range(n):
            # probability two alleles drawn (one from i, one from j) are IBS, averaged over loci
            a=Za[i]/ploidy; b=Za[j]/ploidy
            out[i,j]=2*numpy.mean(a*b+(1-a)*(1-b))
    return out
for trial in range(30):
    n=int(rng.integers(1,9)); m=int(rng.integers(1,15))
    pg=mkpg(rng,ntaxa=n,nvrnt=m)
    un=DenseGenotypeMatrix(pg.mat.sum(0).astype('int8'),taxa=pg.taxa,taxa_grp=pg.taxa_grp,ploidy=2)
    hp=DenseGenotypeMatrix(pg.mat[0].copy(),taxa=pg.taxa,taxa_grp=pg.taxa_grp,ploidy=1)
    Z=pg.mat.sum(0).astype(float)
    for name,g,pl in (('phased',pg,2),('unphased',un,2),('haploid',hp,1)):
        try:
            Zg=(g.mat.sum(0) if g.mat.ndim==3 else g.mat).astype(float)
            A=Mol.from_gmat(g)
            res[('mol',name,bool(numpy.allclose(A.mat,ibs2(Zg,pl))))]+=1
            res[('mol kin',name,bool(numpy.array_equal(A.mat_asformat('kinship'),0.5*A.mat)))]+=1
            res[('mol labels',name,bool(numpy.array_equal(A.taxa,g.taxa)))]+=1
            p=rng.uniform(0.05,0.95,m)
            V=VR.from_gmat(g,p_anc=p); Zc=Zg-pl*p
            res[('vr',name,bool(numpy.allclose(V.mat, Zc@Zc.T/(pl*(p*(1-p)).sum()))))]+=1
            Y=YG.from_gmat(g,p_anc=p); Zs=Zc/numpy.sqrt(pl*p*(1-p))
            res[('yang',name,bool(numpy.allclose(Y.mat, Zs@Zs.T/m)))]+=1
            w=rng.uniform(0,2,m); w[0]=0
            W=GW.from_gmat(g,mkrwt=w,afreq=p)
            res[('gw',name,bool(numpy.allclose(W.mat,(Zc*w)@Zc.T)))]+=1
            perm=rng.permutation(n)
            gp=g.select_taxa(perm)
            res[('vr equivar',name,bool(numpy.allclose(VR.from_gmat(gp,p_anc=p).mat, V.mat[perm][:,perm])))]+=1
            res[('psd',name,bool(numpy.linalg.eigvalsh(V.mat).min()>=-1e-9*max(1,numpy.trace(V.mat))))]+=1
            if n>1:
                try:
                    mi=A.min_inbreeding(); res[('min_inb',name,bool(numpy.isclose(mi,1/numpy.linalg.inv(A.mat).sum())))]+=1
                except Exception as e: res[('min_inb EXC',name,type(e).__name__)]+=1
        except Exception as e:
            res[('EXC',name,type(e).__name__+': '+str(e)[:90])]+=1
for k_,v in sorted(res.items(),key=str): print(k_,v)
