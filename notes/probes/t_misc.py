from boot import *
import traceback, collections
from pybrops.core.random.sampling import stochastic_universal_sampling as sus, tiled_choice, outcross_shuffle, axis_shuffle
# (a) SUS count
bad=collections.Counter()
rng=numpy.random.default_rng(0)
for t in range(3000):
    n=int(rng.integers(1,8)); k=int(rng.integers(1,12))
    p=rng.choice([0,0,1,1,2,0.1,0.3,1e-9,1e6],n).astype(float)
    if p.sum()<=0: continue
    try:
        out=sus(numpy.arange(n),p,k,numpy.random.default_rng(t))
        if out.shape!=(k,): bad['shape']+=1
        cnt=numpy.bincount(out,minlength=n); e=p/p.sum()*k
        if numpy.any(cnt[p==0]>0): bad['zero']+=1
        if numpy.any((cnt<numpy.floor(e-1e-9))|(cnt>numpy.ceil(e+1e-9))): bad['floorceil']+=1
    except Exception as ex:
        bad[type(ex).__name__]+=1
print('SUS', bad)
# (b) hill climber duplicates
from pybrops.breed.prot.sel.prob.EstimatedBreedingValueSelectionProblem import EstimatedBreedingValueSubsetSelectionProblem as P
from pybrops.opt.algo.SteepestDescentSubsetHillClimber import SteepestDescentSubsetHillClimber as HC
ebv=rng.normal(size=(8,1))
p=P(ebv=ebv, ndecn=4, decn_space=numpy.arange(8), decn_space_lower=numpy.repeat(0,4), decn_space_upper=numpy.repeat(7,4), nobj=1, obj_wt=numpy.array([1.0]))
dups=0
for s in range(50):
    sol=HC(rng=numpy.random.default_rng(s)).minimize(p).soln_decn[0]
    dups+= len(set(sol.tolist()))<4
print('HC dup runs', dups,'/50')
# (c) haplomat empty block
from pybrops.core.util.haplo import haplomat
genpos=numpy.array([0.0,0.01,0.02,0.03,1.0]); st=numpy.array([0]); sp=numpy.array([5]); ln=numpy.array([5])
G=rng.integers(0,2,(2,3,5)).astype('int8'); u=rng.normal(size=(5,1))
try:
    h=haplomat(4,G,genpos,st,sp,ln,u); print('haplomat', h[0,0,:,0], 'sum', h[0,0,:,0].sum(), 'true', G[0,0]@u[:,0])
except Exception: traceback.print_exc()
# (e) DenseTaxaMatrix.incorp
from pybrops.core.mat.DenseTaxaMatrix import DenseTaxaMatrix
m=DenseTaxaMatrix(rng.normal(size=(3,2)), taxa=numpy.array(['a','b','c'],dtype=object), taxa_grp=numpy.array([1,1,2]))
for name,call in [('incorp',lambda: m.incorp(1, numpy.zeros((1,2)), axis=0, taxa=numpy.array(['z'],dtype=object), taxa_grp=numpy.array([5]))),('reorder',lambda: m.reorder(numpy.array([2,1,0]),axis=0))]:
    try: call(); print(name,'ok')
    except BaseException as ex: print(name, type(ex).__name__, str(ex)[:80])
# (f,g) bvmat
from pybrops.popgen.bvmat.DenseBreedingValueMatrix import DenseBreedingValueMatrix as BV
raw=numpy.column_stack([rng.normal(size=5)*3+100, numpy.repeat(7.0,5)])
b=BV.from_numpy(raw, taxa=numpy.array(list('abcde'),dtype=object), taxa_grp=numpy.arange(5), trait=numpy.array(['x','c'],dtype=object))
print('tstd', b.tstd(True), raw.std(0), 'tvar', b.tvar(True))
try:
    c=BV.concat_taxa([b,b.select_taxa([0,1])]); print('concat unscale[0]', c.unscale()[0], 'raw', raw[0])
except Exception: traceback.print_exc()
try:
    b2=b.deepcopy(); b2.append_taxa(b.select_taxa([0,1])); print('append unscale[5]', b2.unscale()[5], 'raw', raw[0])
except Exception: traceback.print_exc()
