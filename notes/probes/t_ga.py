from boot import *
import time
from pybrops.breed.prot.sel.prob.EstimatedBreedingValueSelectionProblem import *
from pybrops.opt.algo.SubsetGeneticAlgorithm import SubsetGeneticAlgorithm
from pybrops.opt.algo.SortingSubsetOptimizationAlgorithm import SortingSubsetOptimizationAlgorithm
from pybrops.opt.algo.SteepestDescentSubsetHillClimber import SteepestDescentSubsetHillClimber
from pybrops.opt.algo.NSGA2SubsetGeneticAlgorithm import NSGA2SubsetGeneticAlgorithm
import pybrops.core.random.prng as prng
rng=numpy.random.default_rng(0)
ebv=rng.normal(size=(12,2))
def mk(nobj, wt):
    return EstimatedBreedingValueSubsetSelectionProblem(ebv=ebv, ndecn=4, decn_space=numpy.arange(12), decn_space_lower=numpy.repeat(0,4), decn_space_upper=numpy.repeat(11,4), nobj=nobj, obj_wt=wt, obj_trans=None if nobj==2 else (lambda x,l,**k: l[:1]))
p1=mk(1,numpy.array([1.0]))
for A in (SortingSubsetOptimizationAlgorithm(), SteepestDescentSubsetHillClimber(), SubsetGeneticAlgorithm(ngen=10,pop_size=20)):
    t=time.time()
    try:
        prng.seed(5)
        s=A.minimize(p1); print(type(A).__name__, s.soln_decn, s.soln_obj, p1.evalfn(s.soln_decn[0])[0], '%.2fs'%(time.time()-t))
        prng.seed(5)
        s2=A.minimize(p1); print('  repro', numpy.array_equal(s.soln_decn,s2.soln_decn))
    except Exception as e:
        import traceback; traceback.print_exc()
p2=mk(2,numpy.array([1.0,1.0]))
try:
    A=NSGA2SubsetGeneticAlgorithm(ngen=10,pop_size=20)
    prng.seed(7); s=A.minimize(p2); print(s.soln_decn.shape, s.soln_obj[:3])
    prng.seed(7); s2=A.minimize(p2); print('repro', numpy.array_equal(s.soln_decn,s2.soln_decn))
except Exception as e:
    import traceback; traceback.print_exc()
