import sys, warnings
import numpy
if not hasattr(numpy, "float_"): numpy.float_ = numpy.float64
if not hasattr(numpy, "in1d"): numpy.in1d = numpy.isin
sys.path.insert(0, "/repo")
import pybrops
from pybrops.popgen.gmat.DensePhasedGenotypeMatrix import DensePhasedGenotypeMatrix
from pybrops.popgen.gmat.DenseGenotypeMatrix import DenseGenotypeMatrix

def mkpg(rng, ntaxa=6, nvrnt=12, nchr=2, xo=None, codes=(0,1)):
    mat = rng.choice(numpy.array(codes, dtype='int8'), size=(2,ntaxa,nvrnt)).astype('int8')
    chrgrp = numpy.sort(rng.integers(1, nchr+1, nvrnt)).astype('int64')
    phypos = numpy.arange(1, nvrnt+1, dtype='int64')*10
    genpos = numpy.cumsum(rng.uniform(0,0.3,nvrnt))
    if xo is None:
        xo = rng.uniform(0,0.5,nvrnt)
        xo[numpy.r_[True, chrgrp[1:]!=chrgrp[:-1]]] = 0.5
    pg = DensePhasedGenotypeMatrix(mat, taxa=numpy.array(["t%03d"%i for i in range(ntaxa)],dtype=object),
        taxa_grp=rng.integers(0,3,ntaxa).astype('int64'),
        vrnt_chrgrp=chrgrp, vrnt_phypos=phypos, vrnt_name=numpy.array(["m%d"%i for i in range(nvrnt)],dtype=object),
        vrnt_genpos=genpos, vrnt_xoprob=xo)
    pg.group_vrnt()
    return pg
