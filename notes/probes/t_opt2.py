from boot import *
import time, traceback, inspect
exec(open('t_opt.py').read().split("algos=[")[0].split("from boot import *")[1])
import pybrops.opt.algo.NSGA2MemeticSubsetGeneticAlgorithm as M
for name in ['NSGA2SteepestDescentSubsetGeneticAlgorithm','NSGA2StochasticDescentSubsetGeneticAlgorithm','NSGA2MutatorASubsetGeneticAlgorithm','NSGA2MutatorBSubsetGeneticAlgorithm']:
    cls=getattr(M,name); sig=inspect.signature(cls.__init__)
    try:
        kw={}
        if 'ngen' in sig.parameters: kw['ngen']=6
        if 'pop_size' in sig.parameters: kw['pop_size']=12
        a=cls(**kw); p=mk('Subset',2)
        t=time.time(); s=a.minimize(p); dt=time.time()-t
        X=s.soln_decn
        dup=sum(len(set(x.tolist()))<len(x) for x in X)
        ok=numpy.allclose(numpy.stack([p.evalfn(x)[0] for x in X]), s.soln_obj)
        print(f'{name:46s} {dt:5.2f}s nsoln={s.nsoln} dups={dup} truthful={ok} params={list(sig.parameters)[1:]}')
    except Exception as e:
        print(name,'FAILED',type(e).__name__,str(e)[:300])
