from boot import *
import itertools, traceback
from pybrops.popgen.gmap.HaldaneMapFunction import HaldaneMapFunction
from pybrops.model.gmod.DenseAdditiveLinearGenomicModel import DenseAdditiveLinearGenomicModel
from pybrops.model.vmat.DenseTwoWayDHAdditiveGeneticVarianceMatrix import DenseTwoWayDHAdditiveGeneticVarianceMatrix as V2
from pybrops.model.vmat.DenseThreeWayDHAdditiveGeneticVarianceMatrix import DenseThreeWayDHAdditiveGeneticVarianceMatrix as V3
from pybrops.model.vmat.DenseFourWayDHAdditiveGeneticVarianceMatrix import DenseFourWayDHAdditiveGeneticVarianceMatrix as V4
from pybrops.model.vmat.DenseDihybridDHAdditiveGeneticVarianceMatrix import DenseDihybridDHAdditiveGeneticVarianceMatrix as VD

def gamete_dist(h0,h1,r):
    """exact gamete distribution of individual (h0,h1); r[j]=recomb prob between j-1 and j (r[0]=.5)"""
    L=len(h0); out={}
    for pat in itertools.product((0,1),repeat=L):
        p=0.5
        for j in range(1,L):
            p*= r[j] if pat[j]!=pat[j-1] else 1-r[j]
        g=tuple(h0[j] if pat[j]==0 else h1[j] for j in range(L))
        out[g]=out.get(g,0)+p
    return out
def cross(dA,dB):
    out={}
    for ga,pa in dA.items():
        for gb,pb in dB.items():
            out[(ga,gb)]=out.get((ga,gb),0)+pa*pb
    return out
def gam_of_pop(pop,r):
    out={}
    for (h0,h1),p in pop.items():
        for g,q in gamete_dist(h0,h1,r).items(): out[g]=out.get(g,0)+p*q
    return out
def self_pop(pop,r):
    out={}
    for (h0,h1),p in pop.items():
        gd=gamete_dist(h0,h1,r)
        for k,v in cross(gd,gd).items(): out[k]=out.get(k,0)+p*v
    return out
def dh_var(pop,r,u):
    gd=gam_of_pop(pop,r)
    vals=numpy.array([2*numpy.array(g)@u for g in gd]); ps=numpy.array(list(gd.values()))
    m=(ps[:,None]*vals).sum(0); return (ps[:,None]*(vals-m)**2).sum(0)

rng=numpy.random.default_rng(4)
L=5; n=4
chrgrp=numpy.array([1,1,1,2,2]); genpos=numpy.array([0.0,0.1,0.35,0.0,0.2])
hap=rng.integers(0,2,(n,L)).astype('int8')
mat=numpy.stack([hap,hap])
pg=DensePhasedGenotypeMatrix(mat, taxa=numpy.array(['a','b','c','d'],dtype=object), taxa_grp=numpy.arange(4), vrnt_chrgrp=chrgrp, vrnt_phypos=numpy.arange(L)+1, vrnt_genpos=genpos, vrnt_xoprob=numpy.repeat(.5,L))
pg.group_vrnt()
u=rng.normal(size=(L,2))
mod=DenseAdditiveLinearGenomicModel(beta=numpy.zeros((1,2)), u_misc=None, u_a=u, trait=numpy.array(['t1','t2'],dtype=object))
H=HaldaneMapFunction()
d=numpy.r_[numpy.inf, numpy.diff(genpos)]; d[3]=numpy.inf
r=H.mapfn(numpy.abs(d))
print('r',r)
for nself in (0,1,2):
    m2=V2.from_algmod(mod,pg,1,1,nself,H).mat
    worst=0
    for i in range(n):
        for j in range(n):
            f1={(tuple(hap[i]),tuple(hap[j])):1.0}
            pop=f1
            for s in range(nself): pop=self_pop(pop,r)
            v=dh_var(pop,r,u)
            worst=max(worst,numpy.abs(v-m2[i,j]).max())
    print('2way nself',nself,'max abs diff',worst)
# three-way: recurrent x (female x male)
for nself in (0,1):
    try:
        m3=V3.from_algmod(mod,pg,1,1,nself,H).mat
        worst=0; worstdiag=0
        for rr in range(n):
            for f in range(n):
                for m in range(n):
                    f1={(tuple(hap[f]),tuple(hap[m])):1.0}
                    g1=gam_of_pop(f1,r)
                    pop={ (tuple(hap[rr]),g):p for g,p in g1.items()}
                    for s in range(nself): pop=self_pop(pop,r)
                    v=dh_var(pop,r,u)
                    dlt=numpy.abs(v-m3[rr,f,m]).max()
                    if f==m: worstdiag=max(worstdiag,dlt)
                    else: worst=max(worst,dlt)
        print('3way nself',nself,'offdiag diff',worst,'f==m diff',worstdiag)
    except Exception: traceback.print_exc()
print('--- four-way / dihybrid')
n3=3
try:
    m4=V4.from_algmod(mod,pg,1,1,0,H).mat
    print('4way shape',m4.shape)
    def v4(a,b,c,dd,nself=0):
        g1=gam_of_pop({(tuple(hap[a]),tuple(hap[b])):1.0},r); g2=gam_of_pop({(tuple(hap[c]),tuple(hap[dd])):1.0},r)
        pop=cross(g1,g2)
        for s in range(nself): pop=self_pop(pop,r)
        return dh_var(pop,r,u)
    import collections
    res=collections.Counter()
    for a,b,c,dd in itertools.product(range(n),repeat=4):
        got=m4[a,b,c,dd]
        ok1=numpy.allclose(got,v4(a,b,c,dd),atol=1e-9); ok2=numpy.allclose(got,v4(a,c,b,dd),atol=1e-9)
        kind='distinct' if len({a,b,c,dd})==4 else 'repeat'
        res[(kind,'(ab)(cd)' if ok1 else '-', '(ac)(bd)' if ok2 else '-')]+=1
    print(res)
except Exception: traceback.print_exc()
# dihybrid with heterozygous parents
try:
    hp=rng.integers(0,2,(2,n,L)).astype('int8')
    pgh=DensePhasedGenotypeMatrix(hp, taxa=pg.taxa, taxa_grp=pg.taxa_grp, vrnt_chrgrp=chrgrp, vrnt_phypos=numpy.arange(L)+1, vrnt_genpos=genpos, vrnt_xoprob=numpy.repeat(.5,L)); pgh.group_vrnt()
    for nself in (0,1):
        md=VD.from_algmod(mod,pgh,1,1,nself,H).mat
        res=collections.Counter()
        for a,b in itertools.product(range(n),repeat=2):
            g1=gam_of_pop({(tuple(hp[0,a]),tuple(hp[1,a])):1.0},r); g2=gam_of_pop({(tuple(hp[0,b]),tuple(hp[1,b])):1.0},r)
            pop=cross(g1,g2)
            for s in range(nself): pop=self_pop(pop,r)
            v=dh_var(pop,r,u)
            res[('self' if a==b else 'cross', bool(numpy.allclose(v,md[a,b],atol=1e-9)))]+=1
        print('dihybrid nself',nself,md.shape,res)
except Exception: traceback.print_exc()
