from boot import *
import collections, fractions, itertools
from pybrops.core.random.sampling import stochastic_universal_sampling as sus, tiled_choice, outcross_shuffle, axis_shuffle
from pybrops.core.util.pareto import is_pareto_efficient
bad=collections.Counter(); wit={}
rng=numpy.random.default_rng(1)
pools=[[1,1,1],[0.1,0.2,0.3,0.4],[1e-12,1,1e12],[3,3,3,3,3,3,3],[0,0,1],[0.7,0.1,0.1,0.1],[1/3,1/3,1/3],[0.1]*10,[5,0,0,0,2]]
T=0
for t in range(40000):
    if t%3==0: p=numpy.array(pools[rng.integers(len(pools))],dtype=float)
    else:
        n=int(rng.integers(1,9)); p=rng.choice([0,1,2,3,0.1,0.3,0.7,1e-9,1e6,rng.uniform()],n).astype(float)
    if p.sum()<=0: continue
    k=int(rng.choice([1,2,3,5,7,10,49,98,100,103,250]))
    T+=1
    try:
        out=sus(numpy.arange(len(p)),p,k,numpy.random.default_rng(t))
        cnt=numpy.bincount(out,minlength=len(p))
        tot=sum(fractions.Fraction(float(x)) for x in p)
        e=[fractions.Fraction(float(x))*k/tot for x in p]
        if out.shape!=(k,): bad['shape']+=1
        if any(c>0 and x==0 for c,x in zip(cnt,p)): bad['zero']+=1; wit.setdefault('zero',(p.tolist(),k,t))
        lo=[int(x.__floor__()) for x in e]; hi=[int(x.__ceil__()) for x in e]
        if any(c<l or c>h for c,l,h in zip(cnt,lo,hi)): bad['floorceil']+=1; wit.setdefault('floorceil',(p.tolist(),k,t,cnt.tolist()))
    except Exception as ex:
        bad['EXC '+type(ex).__name__]+=1; wit.setdefault('EXC '+type(ex).__name__,(p.tolist(),k,t,str(ex)[:80]))
print('SUS trials',T,dict(bad)); print(wit)
# pareto
bad=collections.Counter()
def ref(F):
    n=len(F); eff=numpy.ones(n,bool)
    for i in range(n):
        for j in range(n):
            if i!=j and numpy.all(F[j]>=F[i]) and numpy.any(F[j]>F[i]): eff[i]=False; break
    return eff
for t in range(4000):
    n=int(rng.integers(1,14)); d=int(rng.integers(1,4))
    F=rng.integers(0,4,(n,d)).astype(float) if t%2 else rng.normal(size=(n,d))
    wt=rng.choice([-1.0,1.0,2.5],d)
    m=is_pareto_efficient(F,wt,True); ix=is_pareto_efficient(F,wt,False)
    Fw=F*wt; e=ref(Fw)
    if not numpy.array_equal(numpy.flatnonzero(m),numpy.sort(ix)): bad['mask!=index']+=1
    if numpy.any(m & ~e): bad['marked but dominated']+=1
    # every unmarked is equalled or dominated by a marked one
    for i in numpy.flatnonzero(~m):
        if not any(numpy.all(Fw[j]>=Fw[i]) for j in numpy.flatnonzero(m)): bad['unmarked uncovered']+=1; break
    # set of efficient vectors = set of ref-efficient vectors
    if {tuple(r) for r in Fw[m]}!={tuple(r) for r in Fw[e]}: bad['set mismatch']+=1
print('pareto',dict(bad))
