import ast,sys
src=open(sys.argv[1]).read()
tree=ast.parse(src)
names=set(sys.argv[2:])
class S(ast.NodeTransformer):
    def strip(self,node):
        self.generic_visit(node)
        b=node.body
        if b and isinstance(b[0],ast.Expr) and isinstance(b[0].value,ast.Constant) and isinstance(b[0].value.value,str):
            node.body=b[1:] or [ast.Pass()]
        return node
    visit_FunctionDef=strip; visit_ClassDef=strip; visit_Module=strip
tree=S().visit(tree)
if names:
    for n in ast.walk(tree):
        if isinstance(n,(ast.FunctionDef,ast.ClassDef)) and n.name in names:
            print(ast.unparse(n)); print()
else:
    print(ast.unparse(tree))
