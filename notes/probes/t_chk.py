from boot import *
import traceback
class AdvGen(numpy.random.Generator):
    def __init__(self, seed, U): 
        super().__init__(numpy.random.PCG64(seed)); self.U=U; self.n=0
    def uniform(self, low=0.0, high=1.0, size=None):
        self.n+=1
        return numpy.broadcast_to(self.U, size).copy() if self.U is not None else super().uniform(low,high,size)
try:
    g=AdvGen(1, numpy.float64(0.0))
    from pybrops.breed.prot.mate.SelfCross import SelfCross
    rng=numpy.random.default_rng(1)
    pg=mkpg(rng, xo=numpy.zeros(12))
    out=SelfCross(rng=g).mate(pg, numpy.array([[0]]), 1, 2)
    print('adv gen ok, intercepted', g.n, out.mat.shape)
except Exception: traceback.print_exc()
try:
    from pybrops.popgen.gmap.ExtendedGeneticMap import ExtendedGeneticMap
    import inspect; print(inspect.signature(ExtendedGeneticMap.__init__))
except Exception: traceback.print_exc()
from pybrops.model.vmat.DenseTwoWayDHAdditiveGeneticVarianceMatrix import DenseTwoWayDHAdditiveGeneticVarianceMatrix as V
print([n for n in dir(V) if n.startswith('from_') or n=='epgc'])
import pybrops.model.gmod.DenseLinearGenomicModel as L, inspect
print(inspect.isabstract(L.DenseLinearGenomicModel))
from pybrops.breed.prot.sel.prob import WeightedGenomicSelectionProblem as W
print(inspect.isabstract(W.WeightedGenomicSubsetSelectionProblem))
import sys
print(sys.monitoring.get_tool(3))
