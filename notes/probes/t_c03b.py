from boot import *
import collections, traceback, copy
from pybrops.core.mat.DenseTaxaMatrix import DenseTaxaMatrix
from pybrops.core.mat.DenseVariantMatrix import DenseVariantMatrix
from pybrops.core.mat.DenseTraitMatrix import DenseTraitMatrix
from pybrops.core.mat.DenseTaxaTraitMatrix import DenseTaxaTraitMatrix
from pybrops.core.mat.DenseTaxaVariantMatrix import DenseTaxaVariantMatrix
from pybrops.core.mat.DenseSquareTaxaMatrix import DenseSquareTaxaMatrix
from pybrops.core.mat.DenseSquareTaxaTraitMatrix import DenseSquareTaxaTraitMatrix
from pybrops.popgen.bvmat.DenseBreedingValueMatrix import DenseBreedingValueMatrix
from pybrops.popgen.cmat.DenseCoancestryMatrix import DenseCoancestryMatrix
res=collections.Counter()
def tl(ids): return dict(taxa=numpy.array(['T%03d'%i for i in ids],dtype=object), taxa_grp=numpy.array([(i*7)%4 for i in ids],dtype='int64'))
def vl(ids):
    ids=numpy.asarray(ids,dtype=int)
    return dict(vrnt_chrgrp=(ids%3+1).astype('int64'), vrnt_phypos=(ids*13%997+1).astype('int64'), vrnt_name=numpy.array(['V%03d'%i for i in ids],dtype=object), vrnt_genpos=ids*0.01, vrnt_xoprob=(ids%7)/14.0, vrnt_hapgrp=(ids%5).astype('int64'), vrnt_mask=(ids%2==0))
def rl(ids): return dict(trait=numpy.array(['Y%02d'%i for i in ids],dtype=object))
def f(*a):
    out=0.0
    for k,x in enumerate(a): out=out+numpy.asarray(x,dtype=float)*(1000.0**k)
    return out
# spec: class -> list of (axisname, matrix axes)
SPEC={
 DenseTaxaMatrix:[('taxa',(0,))], DenseVariantMatrix:[('vrnt',(0,))], DenseTraitMatrix:[('trait',(0,))],
 DenseTaxaTraitMatrix:[('taxa',(0,)),('trait',(1,))], DenseTaxaVariantMatrix:[('taxa',(0,)),('vrnt',(1,))],
 DenseSquareTaxaMatrix:[('taxa',(0,1))], DenseSquareTaxaTraitMatrix:[('taxa',(0,1)),('trait',(2,))],
 DenseBreedingValueMatrix:[('taxa',(0,)),('trait',(1,))], DenseCoancestryMatrix:[('taxa',(0,1))],
}
LAB={'taxa':tl,'vrnt':vl,'trait':rl}
def build(cls,ids):
    spec=SPEC[cls]; dims=[]
    for nm,axes in spec:
        for a in axes: dims.append((a,nm))
    dims.sort(); nd=len(dims)
    grids=numpy.meshgrid(*[numpy.asarray(ids[nm],dtype=float) for _,nm in dims],indexing='ij') if nd>1 else [numpy.asarray(ids[dims[0][1]],dtype=float)]
    mat=f(*grids)
    if nd==1 and cls in (DenseTaxaMatrix,DenseVariantMatrix,DenseTraitMatrix): mat=numpy.stack([mat,mat+0.5],axis=1)  # add an unlabelled axis
    kw={}
    for nm,_ in spec: kw.update(LAB[nm](ids[nm]))
    if cls is DenseBreedingValueMatrix: return cls.from_numpy(mat,**kw)
    return cls(mat,**kw)
def data(o): return o.unscale() if isinstance(o,DenseBreedingValueMatrix) else o.mat
def check(o,cls,ids,tag):
    try: exp=build(cls,ids)
    except Exception as e:
        res[(cls.__name__,tag,'MODEL-BUILD-EXC')]+=1; return True
    bad=[]
    try: a,b=data(o),data(exp)
    except Exception as e:
        res[(cls.__name__,tag,'BAD data() raises '+type(e).__name__)]+=1; return False
    if a.shape!=b.shape or not numpy.allclose(a,b,equal_nan=True,rtol=1e-9,atol=1e-6): bad.append('mat')
    for nm,_ in SPEC[cls]:
        for k in LAB[nm](ids[nm]).keys():
            x=getattr(o,k); y=getattr(exp,k)
            if x is None or len(x)!=len(y) or not numpy.array_equal(x,y): bad.append(k)
    for ax,arr,pre in (('taxa','taxa_grp','taxa_grp_'),('vrnt','vrnt_chrgrp','vrnt_chrgrp_')):
        if hasattr(o,'is_grouped_'+ax) and getattr(o,'is_grouped_'+ax)():
            grp=getattr(o,arr); nm_,st,sp,ln=[getattr(o,pre+s) for s in ('name','stix','spix','len')]
            ok=len(nm_)==len(st)==len(sp)==len(ln) and numpy.array_equal(sp,st+ln) and ln.sum()==len(grp) and numpy.all(ln>0) and numpy.array_equal(nm_,numpy.unique(grp)) and all(numpy.all(grp[a_:b_]==g) for g,a_,b_ in zip(nm_,st,sp))
            if not ok: bad.append('groups_'+ax)
    for b_ in bad: res[(cls.__name__,tag,'BAD '+b_)]+=1
    if not bad: res[(cls.__name__,tag,'ok')]+=1
    return not bad
rng=numpy.random.default_rng(0)
KEY={'taxa':lambda i:((i*7)%4,'T%03d'%i),'vrnt':lambda i:(i%3+1,i*13%997+1),'trait':lambda i:('Y%02d'%i,)}
def step(cls,obj,ids,nxt):
    spec=SPEC[cls]; nm,axes=spec[rng.integers(len(spec))]
    cur=list(ids[nm]); n=len(cur); ax=axes[0]
    op=rng.choice(['select','delete','insert','adjoin','append','remove','incorp','concat','sort','group','reorder'])
    generic=bool(rng.integers(0,2)); tag=op+('_generic' if generic else '_'+nm)
    def newids(k):
        out=list(range(nxt[nm],nxt[nm]+k)); nxt[nm]+=k; return out
    def other(k):
        new=newids(k); i2=dict(ids); i2[nm]=new; return build(cls,i2),new
    def call(target,opname,*a):
        if generic: return getattr(target,opname)(*a,axis=ax)
        return getattr(target,opname+'_'+nm)(*a)
    try:
        if op=='select': ix=rng.integers(0,n,int(rng.integers(1,n+2))); o=call(obj,'select',ix); new=[cur[i] for i in ix]
        elif op in('delete','remove'):
            if n<2: return obj,ids
            ix=numpy.unique(rng.integers(0,n,int(rng.integers(1,n))))
            if op=='delete': o=call(obj,'delete',ix)
            else: o=copy.deepcopy(obj); call(o,'remove',ix)
            new=[e for i,e in enumerate(cur) if i not in set(ix.tolist())]
        elif op in('insert','incorp'):
            k=1; oth,nw=other(k); pos=int(rng.integers(0,n+1))
            if op=='insert': o=call(obj,'insert',pos,oth)
            else: o=copy.deepcopy(obj); call(o,'incorp',pos,oth)
            new=cur[:pos]+nw+cur[pos:]
        elif op in('adjoin','append'):
            k=int(rng.integers(1,3)); oth,nw=other(k)
            if op=='adjoin': o=call(obj,'adjoin',oth)
            else: o=copy.deepcopy(obj); call(o,'append',oth)
            new=cur+nw
        elif op=='concat':
            k=int(rng.integers(1,3)); oth,nw=other(k)
            o=cls.concat([obj,oth],axis=ax) if generic else getattr(cls,'concat_'+nm)([obj,oth]); new=cur+nw
        elif op in('sort','group'):
            o=copy.deepcopy(obj)
            if generic: (o.group(axis=ax) if op=='group' else o.sort(None,axis=ax))
            else: getattr(o,op+'_'+nm)()
            new=sorted(cur,key=KEY[nm])
        elif op=='reorder':
            perm=rng.permutation(n); o=copy.deepcopy(obj); call(o,'reorder',perm); new=[cur[i] for i in perm]
    except BaseException as e:
        res[(cls.__name__,tag,'EXC '+type(e).__name__+': '+str(e)[:50])]+=1
        return obj,ids
    ids=dict(ids); ids[nm]=new
    if cls in (DenseSquareTaxaMatrix,DenseSquareTaxaTraitMatrix,DenseCoancestryMatrix) and op in('insert','incorp','adjoin','append','concat') and nm=='taxa':
        res[(cls.__name__,tag,'returned (cross-source cells unconstrained; not checked here)')]+=1
        return build(cls,ids),ids
    ok=check(o,cls,ids,tag)
    if not ok: o=build(cls,ids)
    return o,ids
for cls in SPEC:
    for h in range(80):
        ids={nm:list(rng.choice(50,int(rng.integers(1,5)),replace=False)) for nm,_ in SPEC[cls]}
        nxt={'taxa':100,'vrnt':200,'trait':60}
        try: obj=build(cls,ids)
        except Exception as e: res[(cls.__name__,'build','EXC '+str(e)[:60])]+=1; continue
        for s in range(6):
            obj,ids=step(cls,obj,ids,nxt)
            if max(len(v) for v in ids.values())>10: break
tot=collections.Counter()
for (c,t,r),v in res.items(): tot[(c,'ok' if r=='ok' else 'other')]+=v
print({k:v for k,v in tot.items()})
agg=collections.Counter()
for (c,t,r),v in res.items():
    if r!='ok': agg[(c,t.split('_')[0]+('_generic' if t.endswith('generic') else '_specific'),r[:70])]+=v
for k_,v in sorted(agg.items(),key=str): print(k_,v)
