from boot import *
import traceback, collections, warnings
from pybrops.popgen.gmap.StandardGeneticMap import StandardGeneticMap
from pybrops.popgen.gmap.ExtendedGeneticMap import ExtendedGeneticMap
from pybrops.popgen.gmap.HaldaneMapFunction import HaldaneMapFunction
from pybrops.popgen.gmap.KosambiMapFunction import KosambiMapFunction
res=collections.Counter()
for fn in (HaldaneMapFunction(),KosambiMapFunction()):
    with numpy.errstate(all='ignore'):
        d=numpy.r_[0.0,numpy.sort(numpy.random.default_rng(0).uniform(0,3,200)),numpy.inf]
        r=fn.mapfn(d)
        print(type(fn).__name__,'range',r.min(),r.max(),'f0',r[0],'finf',r[-1],'monotone',bool(numpy.all(numpy.diff(r)>=0)),
          'inv err',numpy.nanmax(numpy.abs(fn.invmapfn(r[:-1])-d[:-1])), 'inv(.5)',fn.invmapfn(numpy.array([0.5])))
rng=numpy.random.default_rng(5)
def mkmap(cls,shuffle):
    nchr=int(rng.integers(1,4)); ch=[];ph=[];ge=[]
    for c in range(1,nchr+1):
        k=int(rng.integers(2,7)); p=numpy.sort(rng.choice(numpy.arange(1,1000),k,replace=False)); g=numpy.cumsum(rng.uniform(0,0.4,k))
        ch+= [c]*k; ph+=list(p); ge+=list(g)
    ch=numpy.array(ch,dtype='int64'); ph=numpy.array(ph,dtype='int64'); ge=numpy.array(ge)
    ix=rng.permutation(len(ch)) if shuffle else numpy.arange(len(ch))
    if cls is StandardGeneticMap: return cls(ch[ix],ph[ix],ge[ix]),(ch,ph,ge)
    return cls(ch[ix],ph[ix],ph[ix],ge[ix]),(ch,ph,ge)
for cls in (StandardGeneticMap,ExtendedGeneticMap):
    for trial in range(40):
        try:
            with warnings.catch_warnings():
                warnings.simplefilter('ignore')
                gm,(ch,ph,ge)=mkmap(cls,True)
                # own markers
                out=gm.interp_genpos(ch,ph)
                res[(cls.__name__,'own', bool(numpy.allclose(out,ge)))]+=1
                # sorted state equals canonical
                res[(cls.__name__,'sorted', bool(numpy.array_equal(gm.vrnt_chrgrp,ch) and numpy.array_equal(gm.vrnt_phypos,ph) and numpy.allclose(gm.vrnt_genpos,ge)))]+=1
                D=gm.gdist2g(ch,ge)
                same=ch[:,None]==ch[None,:]
                ok=numpy.allclose(D[same],numpy.abs(ge[:,None]-ge[None,:])[same]) and numpy.all(numpy.isinf(D[~same])) and numpy.allclose(numpy.diag(D),0)
                res[(cls.__name__,'gdist2g',bool(ok))]+=1
                d1=gm.gdist1g(ch,ge)
                exp=numpy.r_[numpy.inf,numpy.diff(ge)]; exp[numpy.r_[True,ch[1:]!=ch[:-1]]]=numpy.inf
                res[(cls.__name__,'gdist1g',bool(numpy.array_equal(numpy.isinf(d1),numpy.isinf(exp)) and numpy.allclose(d1[~numpy.isinf(exp)],exp[~numpy.isinf(exp)])))]+=1
                # absent chromosome
                o=gm.interp_genpos(numpy.array([99]),numpy.array([5]))
                res[(cls.__name__,'absent nan',bool(numpy.isnan(o[0])))]+=1
                # midpoint linear
                j=1; mid=(ph[0]+ph[1])/2
                o=gm.interp_genpos(numpy.array([ch[0]]),numpy.array([mid]))
                res[(cls.__name__,'midpoint',bool(numpy.isclose(o[0],(ge[0]+ge[1])/2)))]+=1
                d1p=gm.gdist1p(ch,ph); res[(cls.__name__,'gdist1p',bool(numpy.allclose(d1p[~numpy.isinf(exp)],exp[~numpy.isinf(exp)])))]+=1
        except Exception as e:
            res[(cls.__name__,'EXC',type(e).__name__+': '+str(e)[:100])]+=1
for k_,v in sorted(res.items(),key=str): print(k_,v)
# interp_xoprob on gmat
try:
    gm,(ch,ph,ge)=mkmap(StandardGeneticMap,False)
    L=len(ch)
    g=DensePhasedGenotypeMatrix(numpy.zeros((2,3,L),dtype='int8'),vrnt_chrgrp=ch,vrnt_phypos=ph)
    g.group_vrnt(); g.interp_xoprob(gm,HaldaneMapFunction())
    exp=numpy.r_[numpy.inf,numpy.diff(ge)]; exp[numpy.r_[True,ch[1:]!=ch[:-1]]]=numpy.inf
    print('xoprob ok', numpy.allclose(g.vrnt_xoprob, 0.5*(1-numpy.exp(-2*exp))), g.vrnt_xoprob[:4])
except Exception: traceback.print_exc()
