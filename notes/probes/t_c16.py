from boot import *
import tempfile, os, traceback, copy, shutil, inspect
from pybrops.popgen.bvmat.DenseBreedingValueMatrix import DenseBreedingValueMatrix
from pybrops.popgen.cmat.DenseMolecularCoancestryMatrix import DenseMolecularCoancestryMatrix
from pybrops.popgen.gmap.StandardGeneticMap import StandardGeneticMap
from pybrops.popgen.gmap.ExtendedGeneticMap import ExtendedGeneticMap
from pybrops.model.gmod.DenseAdditiveLinearGenomicModel import DenseAdditiveLinearGenomicModel
from pybrops.model.gmod.DenseAdditiveDominanceLinearGenomicModel import DenseAdditiveDominanceLinearGenomicModel
from pybrops.model.vmat.DenseTwoWayDHAdditiveGeneticVarianceMatrix import DenseTwoWayDHAdditiveGeneticVarianceMatrix
from pybrops.popgen.gmap.HaldaneMapFunction import HaldaneMapFunction
from pybrops.breed.prot.pt.G_E_Phenotyping import G_E_Phenotyping
rng=numpy.random.default_rng(3)
pg=mkpg(rng,ntaxa=5,nvrnt=8); pg.group_taxa()
un=DenseGenotypeMatrix(pg.mat.sum(0).astype('int8'),taxa=pg.taxa,taxa_grp=pg.taxa_grp,vrnt_chrgrp=pg.vrnt_chrgrp,vrnt_phypos=pg.vrnt_phypos,vrnt_name=pg.vrnt_name,vrnt_genpos=pg.vrnt_genpos,vrnt_xoprob=pg.vrnt_xoprob,ploidy=2); un.group_vrnt()
tr=numpy.array(['y1','y2'],dtype=object)
bv=DenseBreedingValueMatrix.from_numpy(rng.normal(size=(5,2))+3,taxa=pg.taxa,taxa_grp=pg.taxa_grp,trait=tr)
cm=DenseMolecularCoancestryMatrix.from_gmat(pg)
gm=StandardGeneticMap(pg.vrnt_chrgrp,pg.vrnt_phypos,pg.vrnt_genpos)
eg=ExtendedGeneticMap(pg.vrnt_chrgrp,pg.vrnt_phypos,pg.vrnt_phypos+1,pg.vrnt_genpos,vrnt_name=pg.vrnt_name)
u=rng.normal(size=(8,2))
am=DenseAdditiveLinearGenomicModel(beta=numpy.array([[1.0,2.0]]),u_misc=None,u_a=u,trait=tr,model_name='m',hyperparams={'a':1})
ad=DenseAdditiveDominanceLinearGenomicModel(beta=numpy.array([[1.0,2.0]]),u_misc=None,u_a=u,u_d=u*0.1,trait=tr)
vm=DenseTwoWayDHAdditiveGeneticVarianceMatrix.from_algmod(am,pg,1,1,0,HaldaneMapFunction())
pt=G_E_Phenotyping(am,nenv=2,nrep=2,var_env=1.0,var_rep=0.5,var_err=numpy.array([1.0,2.0]))
objs=dict(pgmat=pg,gmat=un,bvmat=bv,cmat=cm,gmap=gm,egmap=eg,algmod=am,adgmod=ad,vmat=vm,pheno=pt)
d=tempfile.mkdtemp(dir='/tmp/x')
def attrs(o):
    out={}
    for n in dir(o):
        if n.startswith('_') : continue
        try: v=getattr(o,n)
        except Exception: continue
        if callable(v): continue
        out[n]=v
    return out
def eq(a,b):
    if a is None or b is None: return a is b
    if isinstance(a,numpy.ndarray) or isinstance(b,numpy.ndarray):
        a=numpy.asarray(a); b=numpy.asarray(b)
        if a.shape!=b.shape: return False
        if a.dtype.kind in 'fc': return a.dtype==b.dtype and numpy.allclose(a,b,equal_nan=True,rtol=1e-12,atol=0)
        return a.dtype==b.dtype and numpy.array_equal(a,b)
    if isinstance(a,dict): return isinstance(b,dict) and a.keys()==b.keys()
    try: return bool(a==b)
    except Exception: return True
def diff(a,b):
    A,B=attrs(a),attrs(b); out=[]
    for k in A:
        if k in ('spline','gpmod'): continue
        if k not in B: out.append(k+':missing'); continue
        if not eq(A[k],B[k]): out.append(k)
    return out
for name,o in objs.items():
    cls=type(o); line=[name]
    for w,r,ext in (('to_hdf5','from_hdf5','.h5'),('to_csv','from_csv','.csv'),('to_pandas','from_pandas',None),('to_pandas_dict','from_pandas_dict',None),('to_csv_dict','from_csv_dict',None)):
        if not hasattr(o,w) or not hasattr(cls,r): continue
        try:
            if w=='to_hdf5':
                f=os.path.join(d,name+ext); o.to_hdf5(f,'g1/g2'); b=cls.from_hdf5(f,'g1/g2') if name!='pheno' else cls.from_hdf5(f,'g1/g2')
            elif w=='to_csv':
                f=os.path.join(d,name+ext); o.to_csv(f); b=cls.from_csv(f)
            elif w=='to_pandas':
                b=cls.from_pandas(o.to_pandas())
            elif w=='to_pandas_dict':
                b=cls.from_pandas_dict(o.to_pandas_dict())
            elif w=='to_csv_dict':
                fn={k:os.path.join(d,name+'_'+k+'.csv') for k in ('beta','u','u_misc','u_a','u_d')}
                sig=inspect.signature(o.to_csv_dict); 
                o.to_csv_dict(fn); b=cls.from_csv_dict(fn)
            line.append('%s:%s'%(w,diff(o,b) or 'EQUAL'))
        except Exception as e:
            line.append('%s:EXC %s %s'%(w,type(e).__name__,str(e)[:70]))
    try: c=copy.deepcopy(o); line.append('deepcopy:%s'%(diff(o,c) or 'EQUAL'))
    except Exception as e: line.append('deepcopy:EXC %s'%str(e)[:60])
    try: c=copy.copy(o); line.append('copy:%s'%(diff(o,c) or 'EQUAL'))
    except Exception as e: line.append('copy:EXC %s'%str(e)[:60])
    print(' | '.join(line))
shutil.rmtree(d)
