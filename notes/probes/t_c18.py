from boot import *
import collections, traceback, itertools
from pybrops.core.util.haplo import nhaploblk_chrom, haplobin, haplobin_bounds, haplomat
from pybrops.model.gmod.DenseAdditiveLinearGenomicModel import DenseAdditiveLinearGenomicModel
from pybrops.breed.prot.sel.prob.OptimalHaploidValueSelectionProblem import OptimalHaploidValueSubsetSelectionProblem as OHV
from pybrops.breed.prot.sel.prob.OptimalPopulationValueSelectionProblem import OptimalPopulationValueSubsetSelectionProblem as OPV
res=collections.Counter(); wit={}
rng=numpy.random.default_rng(2)
for t in range(600):
    nchr=int(rng.integers(1,4)); lens=rng.integers(1,7,nchr); m=int(lens.sum())
    kind=rng.choice(['even','cluster','tie','random'])
    gp=[]
    for L in lens:
        if kind=='even': g=numpy.linspace(0,1,L) if L>1 else numpy.array([0.0])
        elif kind=='cluster': g=numpy.sort(numpy.r_[rng.uniform(0,0.02,max(L-1,0)),1.0][:L]) if L>1 else numpy.array([0.3])
        elif kind=='tie': g=numpy.sort(rng.choice([0,0.25,0.5,0.75,1.0],L))
        else: g=numpy.sort(rng.uniform(0,2,L))
        gp.append(g)
    genpos=numpy.concatenate(gp); sp=numpy.cumsum(lens); st=sp-lens
    nblk=int(rng.integers(nchr,m+1))
    n=int(rng.integers(1,5)); G=rng.integers(0,2,(2,n,m)).astype('int8'); u=rng.normal(size=(m,2))
    try:
        with numpy.errstate(all='ignore'):
            per=nhaploblk_chrom(nblk,genpos,st,sp)
        ok_per= per.sum()==nblk and numpy.all(per>=1)
        res[('apportion',kind,bool(ok_per))]+=1
        if numpy.any(per>lens): res[('per>len',kind)]+=1; continue
        hb=haplobin(per,genpos,st,sp)
        hst,hsp,hlen=haplobin_bounds(hb)
        nd=len(hst)
        contiguous=numpy.all(numpy.diff(hb)>=0)
        within=all(any(a>=s and b<=e for s,e in zip(st,sp)) for a,b in zip(hst,hsp))
        res[('nblocks==requested',kind,bool(nd==nblk))]+=1
        if nd!=nblk: wit.setdefault(('nblocks',kind),(genpos.tolist(),st.tolist(),sp.tolist(),nblk,per.tolist(),hb.tolist()))
        res[('contiguous+within',kind,bool(contiguous and within))]+=1
        H=haplomat(nblk,G,genpos,st,sp,lens,u)
        res[('finite',kind,bool(numpy.all(numpy.isfinite(H))))]+=1
        tot=numpy.einsum('pnm,mt->pnt',G.astype(float),u)
        res[('conservation',kind,bool(numpy.allclose(H[:,:,:nd,:].sum(2),tot)) , 'extra slots zero' if nd==nblk or numpy.allclose(H[:,:,nd:,:],0) else 'extra slots garbage')]+=1
    except Exception as e:
        res[('EXC',kind,type(e).__name__+': '+str(e)[:70])]+=1
for k_,v in sorted(res.items(),key=str): print(k_,v)
for k_,v in wit.items(): print('WIT',k_,v)
