from boot import *
import tempfile, os, traceback, copy
rng=numpy.random.default_rng(3)
pg=mkpg(rng)
d=tempfile.mkdtemp(dir='/tmp/x')
f=os.path.join(d,'a.h5')
try:
    pg.to_hdf5(f,'grp/é')
    q=DensePhasedGenotypeMatrix.from_hdf5(f,'grp/é')
    print('h5 pg ok', numpy.array_equal(pg.mat,q.mat), q.taxa[:2], q.vrnt_chrgrp_stix, q.mat.dtype)
    # overwrite poorer
    pg2=DensePhasedGenotypeMatrix(pg.mat.copy())
    pg2.to_hdf5(f,'grp/é')
    q2=DensePhasedGenotypeMatrix.from_hdf5(f,'grp/é')
    print('stale taxa after poorer overwrite:', q2.taxa)
except Exception: traceback.print_exc()
from pybrops.popgen.bvmat.DenseBreedingValueMatrix import DenseBreedingValueMatrix
bv=DenseBreedingValueMatrix.from_numpy(rng.normal(size=(6,2)), taxa=pg.taxa, taxa_grp=pg.taxa_grp, trait=numpy.array(['y1','y2'],dtype=object))
try:
    df=bv.to_pandas(); print(df.dtypes.to_dict())
    b2=DenseBreedingValueMatrix.from_pandas(df)
    print('bv pandas ok', numpy.allclose(b2.unscale(),bv.unscale()), b2.taxa.dtype, b2.taxa_grp)
except Exception: traceback.print_exc()
try:
    bv.to_csv(os.path.join(d,'b.csv')); b3=DenseBreedingValueMatrix.from_csv(os.path.join(d,'b.csv')); print('csv ok', numpy.allclose(b3.unscale(),bv.unscale()), b3.taxa[:2], b3.trait)
except Exception: traceback.print_exc()
from pybrops.popgen.gmap.StandardGeneticMap import StandardGeneticMap
gm=StandardGeneticMap(pg.vrnt_chrgrp, pg.vrnt_phypos, pg.vrnt_genpos)
try:
    df=gm.to_pandas(); g2=StandardGeneticMap.from_pandas(df); print('gmap pandas ok', numpy.allclose(g2.vrnt_genpos,gm.vrnt_genpos))
except Exception: traceback.print_exc()
from pybrops.popgen.cmat.DenseMolecularCoancestryMatrix import DenseMolecularCoancestryMatrix
cm=DenseMolecularCoancestryMatrix.from_gmat(pg)
try:
    df=cm.to_pandas(); c2=DenseMolecularCoancestryMatrix.from_pandas(df); print('cmat pandas ok', numpy.allclose(c2.mat,cm.mat), c2.taxa[:2], c2.taxa_grp)
    cm.to_hdf5(f,'cm'); c3=DenseMolecularCoancestryMatrix.from_hdf5(f,'cm'); print('cmat h5 ok', numpy.allclose(c3.mat,cm.mat))
except Exception: traceback.print_exc()
c=copy.deepcopy(pg); c.mat[0,0,0]=1-c.mat[0,0,0]; print('deepcopy independent', pg.mat[0,0,0]!=c.mat[0,0,0])
import shutil; shutil.rmtree(d)
