from boot import *
import traceback
vcf="""##fileformat=VCFv4.2
##contig=<ID=1>
##contig=<ID=2>
##FORMAT=<ID=GT,Number=1,Type=String,Description="Genotype">
#CHROM	POS	ID	REF	ALT	QUAL	FILTER	INFO	FORMAT	S1	S2	Sé3
1	100	m1	A	T	.	.	.	GT	0|1	1|1	0|0
1	200	m2	G	C	.	.	.	GT	1|0	0|1	1|1
2	50	m3	A	G	.	.	.	GT	0|0	1|0	0|1
"""
open('/tmp/x/a.vcf','w').write(vcf)
try:
    g=DensePhasedGenotypeMatrix.from_vcf('/tmp/x/a.vcf')
    print(g.mat.transpose(1,2,0).tolist(), g.taxa, g.vrnt_chrgrp, g.vrnt_phypos, g.vrnt_name, g.is_grouped_vrnt())
    u=DenseGenotypeMatrix.from_vcf('/tmp/x/a.vcf'); print(u.mat.tolist())
except Exception: traceback.print_exc()
