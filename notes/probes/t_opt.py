from boot import *
import time, traceback, importlib, inspect
from pybrops.breed.prot.sel.prob.EstimatedBreedingValueSelectionProblem import *
rng=numpy.random.default_rng(0)
n=10; k=4
ebv=rng.normal(size=(n,2))
def mk(kind,nobj):
    wt=numpy.ones(nobj); tr=None if nobj==2 else (lambda x,l,**kw: l[:1])
    if kind=='Subset':
        return EstimatedBreedingValueSubsetSelectionProblem(ebv=ebv,ndecn=k,decn_space=numpy.arange(n),decn_space_lower=numpy.repeat(0,k),decn_space_upper=numpy.repeat(n-1,k),nobj=nobj,obj_wt=wt,obj_trans=tr)
    cls={'Real':EstimatedBreedingValueRealSelectionProblem,'Integer':EstimatedBreedingValueIntegerSelectionProblem,'Binary':EstimatedBreedingValueBinarySelectionProblem}[kind]
    lo,up={'Real':(0.0,1.0),'Integer':(0,3),'Binary':(0,1)}[kind]
    ds=numpy.stack([numpy.repeat(lo,n),numpy.repeat(up,n)])
    return cls(ebv=ebv,ndecn=n,decn_space=ds,decn_space_lower=numpy.repeat(lo,n),decn_space_upper=numpy.repeat(up,n),nobj=nobj,obj_wt=wt,obj_trans=tr)
algos=[('SortingSubsetOptimizationAlgorithm','Subset',1),('SteepestDescentSubsetHillClimber','Subset',1),('SortingSteepestDescentSubsetHillClimber','Subset',1),('SubsetGeneticAlgorithm','Subset',1),('RealGeneticAlgorithm','Real',1),('IntegerGeneticAlgorithm','Integer',1),('BinaryGeneticAlgorithm','Binary',1),('NSGA2SubsetGeneticAlgorithm','Subset',2),('NSGA2RealGeneticAlgorithm','Real',2),('NSGA2IntegerGeneticAlgorithm','Integer',2),('NSGA2BinaryGeneticAlgorithm','Binary',2),('NSGA3SubsetGeneticAlgorithm','Subset',2),('NSGA2MemeticSubsetGeneticAlgorithm','Subset',2)]
for name,kind,nobj in algos:
    try:
        mod=importlib.import_module('pybrops.opt.algo.'+name); cls=getattr(mod,name)
        sig=inspect.signature(cls.__init__)
        kw={}
        if 'ngen' in sig.parameters: kw['ngen']=8
        if 'pop_size' in sig.parameters: kw['pop_size']=16
        a=cls(**kw)
        p=mk(kind,nobj)
        t=time.time(); s=a.minimize(p); dt=time.time()-t
        X=s.soln_decn
        re=[p.evalfn(x)[0] for x in X]
        ok=numpy.allclose(numpy.stack(re), s.soln_obj)
        print(f'{name:42s} {dt:5.2f}s nsoln={s.nsoln} decn[0]={X[0]} dtype={X.dtype} truthful={ok} params={list(sig.parameters)[1:]}')
    except Exception as e:
        print(name,'FAILED',type(e).__name__,str(e)[:200]); traceback.print_exc(limit=3)
