from boot import *
import traceback, copy
from pybrops.breed.arch.RecurrentSelectionBreedingProgram import RecurrentSelectionBreedingProgram
from pybrops.breed.op.init.InitializationOperator import InitializationOperator
from pybrops.breed.op.psel.ParentSelectionOperator import ParentSelectionOperator
from pybrops.breed.op.mate.MatingOperator import MatingOperator
from pybrops.breed.op.eval.EvaluationOperator import EvaluationOperator
from pybrops.breed.op.ssel.SurvivorSelectionOperator import SurvivorSelectionOperator
from pybrops.breed.op.log.Logbook import Logbook
trace=[]
def st(**k): return {n:(id(v),copy.deepcopy(v)) for n,v in k.items() if n in('genome','geno','pheno','bval','gmod')}
class I(InitializationOperator):
    def initialize(self,miscout=None,**kw): trace.append(('init',)); return {'g':[0]},{'x':[0]},{'p':[0]},{'b':[0]},{'m':[0]}
class PS(ParentSelectionOperator):
    def pselect(self,genome,geno,pheno,bval,gmod,t_cur,t_max,miscout=None,**kw):
        trace.append(('pselect',t_cur,st(genome=genome,geno=geno,pheno=pheno,bval=bval,gmod=gmod))); genome['g'].append(('ps',t_cur)); return {'cfg':t_cur},genome,geno,pheno,bval,gmod
class MT(MatingOperator):
    def mate(self,mcfg,genome,geno,pheno,bval,gmod,t_cur,t_max,miscout=None,**kw):
        trace.append(('mate',t_cur,mcfg)); geno['x'].append(('mt',t_cur)); return genome,geno,pheno,bval,gmod
class EV(EvaluationOperator):
    def evaluate(self,genome,geno,pheno,bval,gmod,t_cur,t_max,miscout=None,**kw):
        trace.append(('evaluate',t_cur,copy.deepcopy(genome))); pheno['p'].append(('ev',t_cur)); return genome,geno,pheno,bval,gmod
class SS(SurvivorSelectionOperator):
    def sselect(self,genome,geno,pheno,bval,gmod,t_cur,t_max,miscout=None,**kw):
        trace.append(('sselect',t_cur)); return genome,geno,pheno,bval,gmod
class LB(Logbook):
    def __init__(self): self._rep=0; self._data={}
    data=property(lambda s:s._data, lambda s,v:setattr(s,'_data',v)); rep=property(lambda s:s._rep, lambda s,v:setattr(s,'_rep',v))
    def log_initialize(self,genome,geno,pheno,bval,gmod,t_cur,t_max,**kw): trace.append(('log_initialize',t_cur,self.rep))
    def log_pselect(self,mcfg,genome,geno,pheno,bval,gmod,t_cur,t_max,**kw): trace.append(('log_pselect',t_cur))
    def log_mate(self,genome,geno,pheno,bval,gmod,t_cur,t_max,**kw): trace.append(('log_mate',t_cur))
    def log_evaluate(self,genome,geno,pheno,bval,gmod,t_cur,t_max,**kw): trace.append(('log_evaluate',t_cur))
    def log_sselect(self,genome,geno,pheno,bval,gmod,t_cur,t_max,**kw): trace.append(('log_sselect',t_cur))
    def reset(self): pass
    def write(self,filename): pass
try:
    bp=RecurrentSelectionBreedingProgram(I(),PS(),MT(),EV(),SS(),t_max=5)
    bp.evolve(nrep=2,ngen=2,lbook=LB())
    for e in trace: print(e[:2] if e[0]!='evaluate' else e)
    print('start_genome after', bp.start_genome)
except Exception: traceback.print_exc()
