from boot import *
import collections, traceback, time, importlib
from pybrops.popgen.bvmat.DenseBreedingValueMatrix import DenseBreedingValueMatrix
from pybrops.opt.algo.SortingSubsetOptimizationAlgorithm import SortingSubsetOptimizationAlgorithm
from pybrops.opt.algo.RealGeneticAlgorithm import RealGeneticAlgorithm
from pybrops.opt.algo.IntegerGeneticAlgorithm import IntegerGeneticAlgorithm
from pybrops.opt.algo.BinaryGeneticAlgorithm import BinaryGeneticAlgorithm
import pybrops.breed.prot.sel.EstimatedBreedingValueSelection as E
res=collections.Counter(); wit={}
def selfpairs(x): return sum(len(r)-len(set(r.tolist())) for r in x)
def swap_improves(x):
    flat=x.ravel().copy(); base=selfpairs(x)
    for i in range(len(flat)):
        for j in range(i+1,len(flat)):
            flat[i],flat[j]=flat[j],flat[i]
            if selfpairs(flat.reshape(x.shape))<base: return True
            flat[i],flat[j]=flat[j],flat[i]
    return False
t0=time.time()
for t in range(60):
    rng=numpy.random.default_rng(t)
    n=int(rng.integers(3,12)); pg=mkpg(rng,ntaxa=n,nvrnt=6)
    raw=rng.normal(size=(n,2)); bv=DenseBreedingValueMatrix.from_numpy(raw,taxa=pg.taxa,taxa_grp=pg.taxa_grp,trait=numpy.array(['a','b'],dtype=object))
    ncross=int(rng.integers(1,6)); nparent=int(rng.integers(1,4))
    for kind,algo in (('Subset',SortingSubsetOptimizationAlgorithm()),('Real',RealGeneticAlgorithm(ngen=4,pop_size=8)),('Integer',IntegerGeneticAlgorithm(ngen=4,pop_size=8)),('Binary',BinaryGeneticAlgorithm(ngen=4,pop_size=8))):
        cls=getattr(E,'EstimatedBreedingValue'+kind+'Selection')
        try:
            kw=dict(ntrait=2,unscale=True,ncross=ncross,nparent=nparent,nmating=1,nprogeny=2,nobj=1,obj_wt=numpy.array([1.0]),obj_trans=lambda x,l,**k: l[:1],soalgo=algo)
            sel=cls(**kw)
            if kind=='Subset' and ncross*nparent>n: continue
            mo={}
            cfg=sel.select(pg,None,None,bv,None,0,5,miscout=mo)
            x=cfg.xconfig; decn=cfg.xconfig_decn
            res[(kind,'shape',bool(x.shape==(ncross,nparent)))]+=1
            cnt=numpy.bincount(x.ravel(),minlength=n)
            if kind=='Subset':
                res[(kind,'member',bool(numpy.isin(x,decn).all()))]+=1
                c=cnt[decn]; res[(kind,'even',bool(c.max()-c.min()<=1))]+=1
                best=numpy.argsort(raw[:,0])[::-1][:ncross*nparent]
                res[(kind,'truncation',bool(set(decn.tolist())==set(best.tolist())))]+=1
            elif kind=='Real':
                e=decn/decn.sum()*x.size
                ok=numpy.all((cnt>=numpy.floor(e-1e-9))&(cnt<=numpy.ceil(e+1e-9))) and numpy.all(cnt[decn==0]==0)
                res[(kind,'floorceil',bool(ok))]+=1
                if not ok: wit.setdefault((kind,'floorceil'),(decn.tolist(),cnt.tolist()))
            else:
                d=decn.astype(int); tot=d.sum()
                ok=numpy.all(cnt[d==0]==0)
                if tot>0:
                    q,r=divmod(x.size,tot); ok=ok and numpy.all((cnt>=d*q)&(cnt<=d*q+d))
                res[(kind,'tiles',bool(ok))]+=1
                if not ok: wit.setdefault((kind,'tiles'),(d.tolist(),cnt.tolist()))
            res[(kind,'outcross local opt',not swap_improves(x))]+=1
        except Exception as e:
            res[(kind,'EXC '+type(e).__name__+': '+str(e)[:80])]+=1
print('%.1fs'%(time.time()-t0))
for k_,v in sorted(res.items(),key=str): print(k_,v)
print(wit)
