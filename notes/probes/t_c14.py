from boot import *
import traceback
from pybrops.model.gmod.DenseAdditiveLinearGenomicModel import DenseAdditiveLinearGenomicModel
from pybrops.breed.prot.pt.G_E_Phenotyping import G_E_Phenotyping
from pybrops.breed.prot.bv.MeanPhenotypicBreedingValue import MeanPhenotypicBreedingValue
rng=numpy.random.default_rng(2)
pg=mkpg(rng,ntaxa=7,nvrnt=10)
pg.taxa=numpy.array(['z','b','q','a','m','c','y'],dtype=object)
u=rng.normal(size=(10,2))
mod=DenseAdditiveLinearGenomicModel(beta=numpy.array([[3.0,-1.0]]), u_misc=None, u_a=u, trait=numpy.array(['t1','t2'],dtype=object))
try:
    pt=G_E_Phenotyping(mod, nenv=2, nrep=numpy.array([2,3]), var_env=0.0, var_rep=0.0, var_err=0.0, rng=numpy.random.default_rng(1))
    df=pt.phenotype(pg)
    print(df.shape, df.dtypes.to_dict())
    truth=mod.gegv(pg).unscale()
    exp=numpy.tile(truth,(5,1))
    print('zero-noise exact', numpy.array_equal(df[['t1','t2']].to_numpy(), exp), numpy.abs(df[['t1','t2']].to_numpy()-exp).max())
    pt.set_h2(0.4, pg); print('var_err', pt.var_err, mod.var_A(pg)*(0.6/0.4))
    bvp=MeanPhenotypicBreedingValue('taxa','taxa_grp',['t1','t2'])
    sub=pg.select_taxa([3,0,5])
    bv=bvp.estimate(df.sample(frac=1.0, random_state=1), sub)
    print(bv.taxa, numpy.allclose(bv.unscale(), truth[[3,0,5]]))
    bv0=bvp.estimate(df, None); print(bv0.taxa)
except Exception: traceback.print_exc()
