from boot import *
import time, traceback, inspect, importlib, collections, copy
import pybrops.opt.algo.NSGA2MemeticSubsetGeneticAlgorithm as M
from pybrops.breed.prot.sel.prob.EstimatedBreedingValueSelectionProblem import *
import pybrops.core.random.prng as prng
res=collections.Counter()
def mk(kind,nobj,ebv,k,con=False):
    n=len(ebv); wt=numpy.ones(nobj); tr=None if nobj==ebv.shape[1] else (lambda x,l,**kw: l[:nobj])
    kw={}
    if con:
        kw=dict(nineqcv=1,ineqcv_wt=numpy.array([1.0]),ineqcv_trans=lambda x,l,**k2: numpy.array([max(0.0,l[-1]+0.2)]))
    if kind=='Subset':
        return EstimatedBreedingValueSubsetSelectionProblem(ebv=ebv,ndecn=k,decn_space=numpy.arange(n),decn_space_lower=numpy.repeat(0,k),decn_space_upper=numpy.repeat(n-1,k),nobj=nobj,obj_wt=wt,obj_trans=tr,**kw)
    cls={'Real':EstimatedBreedingValueRealSelectionProblem,'Integer':EstimatedBreedingValueIntegerSelectionProblem,'Binary':EstimatedBreedingValueBinarySelectionProblem}[kind]
    lo,up={'Real':(0.0,1.0),'Integer':(0,3),'Binary':(0,1)}[kind]
    ds=numpy.stack([numpy.repeat(lo,n),numpy.repeat(up,n)])
    return cls(ebv=ebv,ndecn=n,decn_space=ds,decn_space_lower=numpy.repeat(lo,n),decn_space_upper=numpy.repeat(up,n),nobj=nobj,obj_wt=wt,obj_trans=tr,**kw)
names=[('SubsetGeneticAlgorithm','Subset',1),('RealGeneticAlgorithm','Real',1),('IntegerGeneticAlgorithm','Integer',1),('BinaryGeneticAlgorithm','Binary',1),('NSGA2SubsetGeneticAlgorithm','Subset',2),('NSGA2RealGeneticAlgorithm','Real',2),('NSGA2IntegerGeneticAlgorithm','Integer',2),('NSGA2BinaryGeneticAlgorithm','Binary',2),('NSGA3SubsetGeneticAlgorithm','Subset',2)]
def dominated(F,G):
    cv=G.sum(1) if G.size else numpy.zeros(len(F))
    out=0
    for i in range(len(F)):
        for j in range(len(F)):
            if i==j: continue
            if (cv[j]<=0 and cv[i]<=0 and numpy.all(F[j]<=F[i]) and numpy.any(F[j]<F[i])) or (cv[j]<cv[i] and cv[i]>0):
                out+=1; break
    return out
t0=time.time()
for rep in range(12):
    rng=numpy.random.default_rng(rep)
    n=int(rng.integers(4,9)); k=int(rng.integers(1,n+1))
    ebv=rng.normal(size=(n,2)); 
    if rep%3==0: ebv=numpy.round(ebv)  # ties
    for name,kind,nobj in names+[(c,'Subset',2) for c in ['NSGA2SteepestDescentSubsetGeneticAlgorithm','NSGA2StochasticDescentSubsetGeneticAlgorithm','NSGA2MutatorASubsetGeneticAlgorithm','NSGA2MutatorBSubsetGeneticAlgorithm']]:
        try:
            cls=getattr(M,name) if hasattr(M,name) else getattr(importlib.import_module('pybrops.opt.algo.'+name),name)
            a=cls(ngen=int(rng.integers(2,8)),pop_size=int(rng.integers(6,14)))
            p=mk(kind,nobj,ebv,k,con=(rep%2==1))
            prng.seed(rep)
            s=a.minimize(p)
            X=s.soln_decn
            for x in X:
                if kind=='Subset':
                    if len(x)!=k: res[(name,'len')]+=1
                    if len(set(x.tolist()))<len(x): res[(name,'dup')]+=1
                    if not numpy.isin(x,numpy.arange(n)).all(): res[(name,'member')]+=1
                else:
                    lo,up={'Real':(0.0,1.0),'Integer':(0,3),'Binary':(0,1)}[kind]
                    if (x<lo).any() or (x>up).any(): res[(name,'bounds')]+=1
            re=[p.evalfn(x) for x in X]
            if not numpy.allclose(numpy.stack([r[0] for r in re]), s.soln_obj): res[(name,'obj')]+=1
            if s.soln_ineqcv is None or (p.nineqcv>0 and not numpy.allclose(numpy.stack([r[1] for r in re]), s.soln_ineqcv)): res[(name,'ineqcv:%s'%(None if s.soln_ineqcv is None else s.soln_ineqcv.shape,))]+=1
            if nobj>1:
                G=s.soln_ineqcv if (s.soln_ineqcv is not None and s.soln_ineqcv.size) else numpy.zeros((len(X),0))
                d=dominated(s.soln_obj,G)
                if d: res[(name,'dominated')]+=d
            res[(name,'runs')]+=1
        except Exception as e:
            res[(name,'EXC '+type(e).__name__+' '+str(e)[:80])]+=1
print('%.1fs'%(time.time()-t0))
for k_,v in sorted(res.items()): print(k_,v)
