from boot import *
import pybrops.model.gmod.rrBLUPModel0 as M
rec=[]
orig=M.rrBLUP_ML0
def wrap(y,Z,*a,**k):
    out=orig(y,Z,*a,**k); rec.append((y.copy(),Z.copy(),out)); return out
M.rrBLUP_ML0=wrap
import time
for seed in range(6):
    rng=numpy.random.default_rng(seed)
    n,p=[(30,10),(50,8),(20,15),(100,20),(40,40),(15,60)][seed]
    Z=rng.integers(0,3,(n,p)).astype('int8'); Z[:,0]=1
    u=rng.normal(size=(p,2)); Y=Z@u+rng.normal(size=(n,2))*2+10
    t=time.time()
    m=M.rrBLUPModel0.fit_numpy(Y,None,Z)
    dt=time.time()-t
    for (y,Zp,out) in rec[-2:]:
        lam=out['varE']/out['varU']; yc=y-y.mean()
        A=Zp.T@Zp+lam*numpy.eye(Zp.shape[1]); b=Zp.T@yc
        r=numpy.linalg.norm(A@out['uhat']-b)/numpy.linalg.norm(b)
        ustar=numpy.linalg.solve(A,b)
        crit=lambda u: ((yc-Zp@u)**2).sum()+lam*(u**2).sum()
        print(n,p,'lam=%.3g'%lam,'relres=%.2e'%r, 'crit(u)=%.4f crit(0)=%.4f crit*=%.4f'%(crit(out['uhat']),crit(0*ustar),crit(ustar)), 'dt=%.2f'%dt, m.beta.ravel(), Y.mean(0), m.u_a[0])
