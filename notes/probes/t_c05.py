from boot import *
import importlib, inspect, traceback, collections
from pybrops.popgen.bvmat.DenseBreedingValueMatrix import DenseBreedingValueMatrix
from pybrops.model.gmod.DenseAdditiveLinearGenomicModel import DenseAdditiveLinearGenomicModel
from pybrops.popgen.cmat.fcty.DenseMolecularCoancestryMatrixFactory import DenseMolecularCoancestryMatrixFactory
from pybrops.popgen.cmat.fcty.DenseVanRadenCoancestryMatrixFactory import DenseVanRadenCoancestryMatrixFactory
rng=numpy.random.default_rng(11)
n,m,t=8,20,2
pg=mkpg(rng,ntaxa=n,nvrnt=m)
gm=pg  # phased as gmat
raw=rng.normal(size=(n,t))*2+5
tr=numpy.array(['y1','y2'],dtype=object)
bv=DenseBreedingValueMatrix.from_numpy(raw,taxa=pg.taxa,taxa_grp=pg.taxa_grp,trait=tr)
u=rng.normal(size=(m,t)); u[3]=0
mod=DenseAdditiveLinearGenomicModel(beta=numpy.array([[1.0,2.0]]),u_misc=None,u_a=u,trait=tr)
Z=pg.mat.sum(0)
def P(modname,clsname): return getattr(importlib.import_module('pybrops.breed.prot.sel.prob.'+modname),clsname)
def common(kind,n,k,nobj):
    if kind=='Subset': return dict(ndecn=k,decn_space=numpy.arange(n),decn_space_lower=numpy.repeat(0,k),decn_space_upper=numpy.repeat(n-1,k),nobj=nobj)
    lo,up={'Real':(0.0,1.0),'Integer':(0,5),'Binary':(0,1)}[kind]
    return dict(ndecn=n,decn_space=numpy.stack([numpy.repeat(lo,n),numpy.repeat(up,n)]),decn_space_lower=numpy.repeat(lo,n),decn_space_upper=numpy.repeat(up,n),nobj=nobj)
K_mol = 0.5*(1.0 + ((Z-1)@(Z-1).T)/m)
fam=pg.taxa_grp
fams=numpy.unique(fam)
def fafreq():
    ac=Z.sum(0)[:,None]; mx=2*n
    fc=numpy.where(u>0,ac,mx-ac).astype(float); fc[u==0]=0
    return fc/mx
defs={
 'EstimatedBreedingValue': (lambda c: -c@raw, lambda cls,kind,k,no: cls.from_bvmat(bvmat=bv,unscale=True,**common(kind,n,k,no))),
 'GenomicEstimatedBreedingValue': (lambda c: -c@(Z@u+numpy.array([1.0,2.0])), lambda cls,kind,k,no: cls.from_gmat_gpmod(gmat=gm,gpmod=mod,unscale=True,**common(kind,n,k,no))),
 'GeneralizedWeightedGenomicEstimatedBreedingValue': (lambda c: -c@(Z@(u*numpy.power(numpy.where(fafreq()>0,fafreq(),1),-0.3))), lambda cls,kind,k,no: cls.from_gmat_algpmod(gmat=gm,algpmod=mod,alpha=0.3,**common(kind,n,k,no))),
 'WeightedGenomic': (lambda c: -c@(Z@(u*numpy.power(numpy.where(fafreq()>0,fafreq(),1),-0.5))), lambda cls,kind,k,no: cls.from_gmat_algpmod(gmat=gm,algpmod=mod,**common(kind,n,k,no))),
 'OptimalContribution': (lambda c: numpy.r_[numpy.sqrt(c@K_mol@c), -c@raw], lambda cls,kind,k,no: cls.from_bvmat_gmat(bvmat=bv,gmat=gm,cmatfcty=DenseMolecularCoancestryMatrixFactory(),unscale=True,**common(kind,n,k,3))),
 'MeanExpectedHeterozygosity': (lambda c: numpy.r_[-(1-numpy.sqrt(c@K_mol@c))], lambda cls,kind,k,no: cls.from_gmat(gmat=gm,cmatfcty=DenseMolecularCoancestryMatrixFactory(),**common(kind,n,k,1))),
 'MeanGenomicRelationship': (lambda c: numpy.r_[numpy.sqrt(c@K_mol@c)], lambda cls,kind,k,no: cls.from_gmat(gmat=gm,cmatfcty=DenseMolecularCoancestryMatrixFactory(),**common(kind,n,k,1))),
 'FamilyEstimatedBreedingValue': (lambda c: numpy.r_[-c@bv.mat, -numpy.array([c[fam==f].sum() for f in fams])], lambda cls,kind,k,no: cls.from_bvmat(bvmat=bv,**common(kind,n,k,2+len(fams)))),
}
res=collections.Counter(); notes=[]
for famname,(dfn,build) in defs.items():
    for trial in range(6):
        k=int(rng.integers(1,n+1))
        x=rng.choice(n,k,replace=False)
        cnt=numpy.bincount(x,minlength=n)
        c=cnt/cnt.sum()
        vals={}
        for kind in ('Subset','Real','Integer','Binary'):
            clsname=famname+kind+'SelectionProblem'
            try:
                cls=P(famname+'SelectionProblem',clsname)
                p=build(cls,kind,k,t)
                xin={'Subset':x,'Real':c*3.7,'Integer':cnt*2,'Binary':cnt.astype(bool) if False else cnt}[kind]
                vals[kind]=numpy.asarray(p.latentfn(xin),dtype=float)
            except Exception as e:
                res[(famname,kind,'EXC '+type(e).__name__+': '+str(e)[:90])]+=1
        try: d=dfn(c)
        except Exception as e: d=None; res[(famname,'defn EXC '+str(e)[:60])]+=1
        for kind,v in vals.items():
            if d is not None:
                okd = v.shape==d.shape and numpy.allclose(v,d,rtol=1e-6,atol=1e-5)
                res[(famname,kind,'def_ok' if okd else 'def_MISMATCH')]+=1
                if not okd and len(notes)<12: notes.append((famname,kind,v,d))
        ks=list(vals)
        for a in ks[1:]:
            same= vals[a].shape==vals[ks[0]].shape and numpy.allclose(vals[a],vals[ks[0]],rtol=1e-9,atol=1e-9)
            res[(famname,'enc_'+ks[0]+'_vs_'+a, same)]+=1
for k_,v in sorted(res.items(),key=str): print(k_,v)
for nt in notes: print('NOTE',nt)
