from boot import *
import collections, time
from pybrops.model.gmod.DenseAdditiveLinearGenomicModel import DenseAdditiveLinearGenomicModel
from pybrops.breed.prot.mate.TwoWayCross import TwoWayCross
from pybrops.breed.prot.mate.TwoWayDHCross import TwoWayDHCross
from pybrops.breed.prot.mate.SelfCross import SelfCross
res=collections.Counter(); t0=time.time()
for h in range(30):
    rng=numpy.random.default_rng(h)
    n=int(rng.integers(2,20)); m=int(rng.integers(3,25))
    pg=mkpg(rng,ntaxa=n,nvrnt=m)
    u=rng.normal(size=(m,2)); u[rng.integers(0,m)]=0
    mod=DenseAdditiveLinearGenomicModel(beta=numpy.array([[10.0,-3.0]]),u_misc=None,u_a=u,trait=numpy.array(['a','b'],dtype=object))
    prev=None; lost=None
    for gen in range(10):
        usl=mod.usl(pg,unscale=True); lsl=mod.lsl(pg,unscale=True); g=mod.gebv(pg).unscale()
        cnt=pg.mat.sum((0,1)); N=2*pg.ntaxa
        tol=1e-9*(1+numpy.abs(u).sum(0)*2)
        res['bracket', bool(numpy.all(g.max(0)<=usl+tol) and numpy.all(g.min(0)>=lsl-tol))]+=1
        if prev is not None:
            res['monotone', bool(numpy.all(usl<=prev[0]+tol) and numpy.all(lsl>=prev[1]-tol))]+=1
            res['lost', bool(numpy.all(cnt[lost0]==0) and numpy.all(cnt[lost1]==N))]+=1
            if not (numpy.all(usl<=prev[0]+tol) and numpy.all(lsl>=prev[1]-tol)): print('NONMONO h',h,'gen',gen,'n',pg.ntaxa,usl,prev[0],lsl,prev[1])
        if numpy.all((cnt==0)|(cnt==N)): res['fixed eq', bool(numpy.allclose(usl,lsl) and numpy.allclose(usl,g[0]))]+=1
        prev=(usl,lsl); lost0=cnt==0; lost1=cnt==N
        # next generation
        nsel=int(rng.integers(1,min(6,pg.ntaxa)+1)); sel=numpy.argsort(g[:,0])[::-1][:nsel] if rng.integers(2) else rng.choice(pg.ntaxa,nsel,replace=False)
        prot=[TwoWayCross,TwoWayDHCross,SelfCross][rng.integers(3)](rng=numpy.random.default_rng(h*100+gen))
        ncross=int(rng.integers(1,5)); size=int(rng.choice([3,7,49,98,103,12]))
        xc=rng.choice(sel,(ncross,prot.nparent))
        nprog=max(1,size//ncross)
        pg=prot.mate(pg,xc,1,nprog)
print('%.1fs'%(time.time()-t0)); print(dict(res))
