from boot import *
import pkgutil, importlib, inspect, traceback
import pybrops.breed.prot.sel.prob as PR
import pybrops.breed.prot.sel as SL
from pybrops.breed.prot.sel.prob.SelectionProblem import SelectionProblem
from pybrops.breed.prot.sel.SelectionProtocol import SelectionProtocol
def walk(pkg, base):
    out=[]
    for m in pkgutil.iter_modules(pkg.__path__):
        if m.ispkg: continue
        try: mod=importlib.import_module(pkg.__name__+'.'+m.name)
        except Exception as e: print('IMPORT FAIL',m.name,e); continue
        for n,c in vars(mod).items():
            if inspect.isclass(c) and issubclass(c,base) and c.__module__==mod.__name__:
                out.append((m.name,n,inspect.isabstract(c)))
    return out
pr=walk(PR,SelectionProblem)
print('problems: total',len(pr),'concrete',sum(not a for _,_,a in pr))
for m,n,a in pr:
    if not a: print('  ',n)
print('abstract:',[n for _,n,a in pr if a])
sl=walk(SL,SelectionProtocol)
print('protocols: total',len(sl),'concrete',sum(not a for _,_,a in sl))
for m,n,a in sl:
    if not a: print('  ',n)
print('abstract:',[n for _,n,a in sl if a])
