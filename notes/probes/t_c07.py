from boot import *
import traceback, time
from pybrops.breed.prot.sel.EstimatedBreedingValueSelection import EstimatedBreedingValueSubsetSelection, EstimatedBreedingValueRealSelection
from pybrops.popgen.bvmat.DenseBreedingValueMatrix import DenseBreedingValueMatrix
rng=numpy.random.default_rng(2)
pg=mkpg(rng,ntaxa=12,nvrnt=10)
raw=rng.normal(size=(12,2))
bv=DenseBreedingValueMatrix.from_numpy(raw,taxa=pg.taxa,taxa_grp=pg.taxa_grp,trait=numpy.array(['a','b'],dtype=object))
try:
    sel=EstimatedBreedingValueSubsetSelection(ntrait=2,unscale=True,ncross=3,nparent=2,nmating=1,nprogeny=4,nobj=1,obj_wt=numpy.array([1.0]),obj_trans=lambda x,l,**k: l[:1])
    print('default soalgo', type(sel.soalgo).__name__, 'moalgo', type(sel.moalgo).__name__)
    mo={}
    t=time.time(); cfg=sel.select(pg,None,None,bv,None,0,10,miscout=mo); print('%.2fs'%(time.time()-t))
    print(cfg.xconfig, cfg.xconfig_decn, numpy.argsort(raw[:,0])[::-1][:6], mo.keys())
    sel2=EstimatedBreedingValueSubsetSelection(ntrait=2,unscale=True,ncross=3,nparent=2,nmating=1,nprogeny=4,nobj=2,obj_wt=numpy.array([1.0,1.0]))
    sel2.moalgo.ngen=10; sel2.moalgo.pop_size=20
    mo={}; t=time.time(); cfg=sel2.select(pg,None,None,bv,None,0,10,miscout=mo); print('mo %.2fs'%(time.time()-t), cfg.xconfig_decn, mo['mosoln'].soln_obj.shape)
except Exception: traceback.print_exc()
