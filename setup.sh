#!/bin/bash
# Offline setup: third-party helpers beside the repo's interpreter (git-ignored .deps).
set -e
here="$(cd "$(dirname "$0")" && pwd)"
cd "$here"
if [ ! -d .deps/jsonschema ] || [ ! -d .deps/icontract ]; then
  PIP_NO_INDEX=1 /venv/bin/pip install --quiet --no-index --find-links /opt/veriftools/wheels \
      --target "$here/.deps" icontract deal jsonschema
fi
PYTHONPATH="$here" PYTHONDONTWRITEBYTECODE=1 /venv/bin/python - <<'PY'
from pbmon import boot
import pybrops, jsonschema, icontract
print("setup ok: pybrops from", pybrops.__file__, "shim:", boot.compat.APPLIED)
PY
