#!/venv/bin/python
"""Regenerate MANIFEST.json from the table below (keeps it valid at all times)."""
import json, os, sys
HERE = os.path.dirname(os.path.abspath(__file__))
BASE = json.load(open("/root/.vp/BASELINE.json"))["cmd"].replace("--junitxml=<file>", "").strip() if os.path.exists("/root/.vp/BASELINE.json") else \
    "cd /repo && /venv/bin/python -m pytest -ra -q -p no:cacheprovider --timeout=900 --continue-on-collection-errors"
CHECKS = json.load(open(os.path.join(HERE, "checks.json")))
props = [json.loads(l) for l in open(os.path.join(HERE, "properties.jsonl"))]
checks, na = [], []
for p in props:
    c = CHECKS.get(p["id"])
    if c is None or not os.path.exists(os.path.join(HERE, "pbmon", "props", p["id"].lower() + ".py")):
        na.append({"property_id": p["id"], "reason": "no check registered yet: the monitor designed in DESIGN.md section 3 for this property has not been built/validated; nothing is claimed"})
        continue
    checks.append({
        "property_id": p["id"],
        "quick_cmd": "./check %s quick" % p["id"],
        "thorough_cmd": "./check %s thorough" % p["id"],
        "evidence_file": "/verif/evidence/%s.json" % p["id"],
        "replay_cmd_template": "./check %s --replay {path}" % p["id"],
        "engine": "pbmon",
        "level_claimed": {"category": "exploration", "text": c["text"], "design_ref": "DESIGN.md section 3, " + p["id"]},
        "level_note": c["note"],
        "technique": c["technique"],
    })
m = {
    "version": 1,
    "setup_cmd": "./setup.sh",
    "hooks": {
        "guard": "PYBROPS_VERIF",
        "enable": "no source hooks exist: every monitor wraps public functions/methods of the working tree from the harness (pbmon.hooks.rebind) or subclasses API extension points; the guard name is reserved and unused",
        "baseline_off_cmd": BASE,
        "source_commits": [],
        "add_only": True,
    },
    "engines": [{"name": "pbmon", "path": "/verif/pbmon", "serves_properties": [c["property_id"] for c in checks],
                 "kind_free_text": "runtime monitoring: seeded hostile workloads drive the real pybrops code from /repo's working tree in fresh interpreters; recorders on wrapped functions, reference-model oracles, trace automata and exact statistical acceptance tests decide; three-valued verdicts"}],
    "checks": checks,
    "not_applicable": na,
    "notes": "Entry point ./check <Cxx> <quick|thorough> [--replay F]; exit 0 held / 1 VIOLATION / 2 INCONCLUSIVE. Known findings: /verif/known_findings.json (never written at run time). See DESIGN.md.",
}
json.dump(m, open(os.path.join(HERE, "MANIFEST.json"), "w"), indent=1)
try:
    sys.path.append(os.path.join(HERE, ".deps"))
    import jsonschema
    jsonschema.validate(m, json.load(open("/root/.vp/MANIFEST.schema.json")))
    print("MANIFEST.json valid:", len(checks), "checks,", len(na), "not_applicable")
except ImportError:
    print("written (jsonschema unavailable)")
